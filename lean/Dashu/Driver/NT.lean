import Dashu.Driver.Loop
import Dashu.Model.NT.Modular
/-
  Driver of group `nt` (C12, C13): runs the mirrored model; beside every result it evaluates the
  `Int`/`Nat` specification and appends ` !model-spec-mismatch` if they differ.
-/
namespace Dashu.Driver.NT
open Dashu.IO Dashu.Model Dashu.Model.NT Dashu.Driver

def chk (model spec : String) : String :=
  if model = spec then model else model ++ " !model-spec-mismatch spec=" ++ spec

def exc {α} (f : α → String) : Except PanicKind α → String
  | .ok v => "ok " ++ f v
  | .error k => "panic " ++ k.name

def resStr (e : Elem) : String := natToHex e.residue

/-- `Int.emod` as a natural number (the spec side of C13) -/
def emodNat (a : Int) (m : Nat) : Nat := (a % (m : Int)).toNat

def withRing (W : Nat) (m : Nat) (f : Ring → String) : String :=
  match Ring.new W 0 m with
  | .ok r => f r
  | .error k => "panic " ++ k.name

/-- every Elem the model produces must satisfy `Valid`; checked on every call -/
def validMark (e : Elem) : String := if decide (Valid e.ring e.raw) then "" else " !model-invalid-element"

def binSpec (op : String) (a b : Int) : Int :=
  match op with
  | "add" => a + b | "sub" => a - b | _ => a * b

def dispatchC13 : Dispatch := fun W op args =>
  match op, args with
  | "m.reduce", [m, a] => do
    let m ← parseNat m; let a ← parseInt a
    pure <| withRing W m fun r =>
      let e := reduceInt W r a
      chk ("ok " ++ resStr e ++ " " ++ natToHex e.modulus ++ validMark e)
          ("ok " ++ natToHex (emodNat a m) ++ " " ++ natToHex m)
  | "m.add", [m, a, b] | "m.sub", [m, a, b] | "m.mul", [m, a, b] => do
    let m ← parseNat m; let a ← parseInt a; let b ← parseInt b
    let o := (op.drop 2).toString
    pure <| withRing W m fun r =>
      let x := reduceInt W r a; let y := reduceInt W r b
      let res := match o with
        | "add" => x.add y | "sub" => x.sub y | _ => x.mul W y
      chk (exc (fun e => resStr e ++ validMark e) res) ("ok " ++ natToHex (emodNat (binSpec o a b) m))
  | "m.div", [m, a, b] => do
    let m ← parseNat m; let a ← parseInt a; let b ← parseInt b
    pure <| withRing W m fun r =>
      let x := reduceInt W r a; let y := reduceInt W r b
      let model := exc (fun e => resStr e ++ validMark e) (x.div W y)
      -- spec: defined iff gcd(b, m) = 1, and then q is the unique residue with q·b ≡ a
      let spec :=
        if Nat.gcd (emodNat b m) m = 1 then
          match x.div W y with
          | .ok q => if (q.residue * emodNat b m) % m = emodNat a m ∧ q.residue < m then "ok " ++ resStr q
                     else "ok <q with q*b = a mod m>"
          | .error _ => "ok <q with q*b = a mod m>"
        else "panic NonInvertible"
      chk model spec
  | "m.neg", [m, a] => do
    let m ← parseNat m; let a ← parseInt a
    pure <| withRing W m fun r =>
      let e := (reduceInt W r a).neg
      chk ("ok " ++ resStr e ++ validMark e) ("ok " ++ natToHex (emodNat (-a) m))
  | "m.dbl", [m, a] => do
    let m ← parseNat m; let a ← parseInt a
    pure <| withRing W m fun r =>
      let e := (reduceInt W r a).dbl
      chk ("ok " ++ resStr e ++ validMark e) ("ok " ++ natToHex (emodNat (2 * a) m))
  | "m.sqr", [m, a] => do
    let m ← parseNat m; let a ← parseInt a
    pure <| withRing W m fun r =>
      let e := (reduceInt W r a).sqr W
      chk ("ok " ++ resStr e ++ validMark e) ("ok " ++ natToHex (emodNat (a * a) m))
  | "m.pow", [m, a, e] => do
    let m ← parseNat m; let a ← parseInt a; let e ← parseNat e
    pure <| withRing W m fun r =>
      let x := (reduceInt W r a).pow W e
      -- spec by square-and-multiply on residues (a^e itself would be astronomically large)
      let base := emodNat a m
      let spec := Id.run do
        let mut acc := 1 % m
        for i in [0:bitLen e] do
          let bit := bitLen e - 1 - i
          acc := (acc * acc) % m
          if e.testBit bit then acc := (acc * base) % m
        return acc
      chk ("ok " ++ resStr x ++ validMark x) ("ok " ++ natToHex spec)
  | "m.inv", [m, a] => do
    let m ← parseNat m; let a ← parseInt a
    pure <| withRing W m fun r =>
      let x := reduceInt W r a
      let model := match x.inv with
        | none => "ok none"
        | some i => "ok some " ++ resStr i ++ validMark i
      let spec :=
        if Nat.gcd (emodNat a m) m = 1 then
          match x.inv with
          | some i => if (i.residue * emodNat a m) % m = 1 % m ∧ i.residue < m then "ok some " ++ resStr i
                      else "ok some <x with a*x = 1 mod m>"
          | none => "ok some <x with a*x = 1 mod m>"
        else "ok none"
      chk model spec
  | "m.eq", [m, a, b] => do
    let m ← parseNat m; let a ← parseInt a; let b ← parseInt b
    pure <| withRing W m fun r =>
      chk (exc boolStr ((reduceInt W r a).beq (reduceInt W r b)))
          ("ok " ++ boolStr (emodNat a m == emodNat b m))
  | "m.mix", [o, m1, m2, a, b] => do
    let m1 ← parseNat m1; let m2 ← parseNat m2; let a ← parseInt a; let b ← parseInt b
    match Ring.new W 1 m1, Ring.new W 2 m2 with
    | .ok r1, .ok r2 =>
      let x := reduceInt W r1 a; let y := reduceInt W r2 b
      let model ← match o with
        | "add" => some (exc resStr (x.add y))
        | "sub" => some (exc resStr (x.sub y))
        | "mul" => some (exc resStr (x.mul W y))
        | "div" => some (exc resStr (x.div W y))
        | "eq" => some (exc boolStr (x.beq y))
        | _ => none
      let spec := if o = "div" ∧ Nat.gcd (emodNat b m2) m2 ≠ 1 then "panic NonInvertible" else "panic DifferentRings"
      pure (chk model spec)
    | .error k, _ => pure ("panic " ++ k.name)
    | _, .error k => pure ("panic " ++ k.name)
  -- ---- the num_modular::Reducer<UBig> impl: printed as `residue check`
  | "r.transform", [m, a] => do
    let m ← parseNat m; let a ← parseNat a
    pure <| withRing W m fun r =>
      let t := rawOfNat W r a
      chk ("ok " ++ natToHex (t / 2 ^ r.k) ++ " " ++ boolStr (rCheck r t) ++ " " ++ natToHex (r.M / 2 ^ r.k))
          ("ok " ++ natToHex (a % m) ++ " true " ++ natToHex m)
  | "r.add", [m, a, b] | "r.sub", [m, a, b] | "r.mul", [m, a, b] => do
    let m ← parseNat m; let a ← parseNat a; let b ← parseNat b
    let o := (op.drop 2).toString
    pure <| withRing W m fun r =>
      let x := rawOfNat W r a; let y := rawOfNat W r b
      let t := match o with
        | "add" => rAdd r x y | "sub" => rSub r x y | _ => mulRaw W r x y
      chk ("ok " ++ natToHex (t / 2 ^ r.k) ++ " " ++ boolStr (rCheck r t))
          ("ok " ++ natToHex (emodNat (binSpec o a b) m) ++ " true")
  | "r.neg", [m, a] | "r.dbl", [m, a] | "r.sqr", [m, a] => do
    let m ← parseNat m; let a ← parseNat a
    let o := (op.drop 2).toString
    pure <| withRing W m fun r =>
      let x := rawOfNat W r a
      let (t, s) : Nat × Int := match o with
        | "neg" => (rNeg r x, -(a : Int)) | "dbl" => (rAdd r x x, 2 * (a : Int)) | _ => (sqrRaw W r x, (a : Int) * a)
      chk ("ok " ++ natToHex (t / 2 ^ r.k) ++ " " ++ boolStr (rCheck r t))
          ("ok " ++ natToHex (emodNat s m) ++ " true")
  | "r.inv", [m, a] => do
    let m ← parseNat m; let a ← parseNat a
    pure <| withRing W m fun r =>
      let x := rawOfNat W r a
      let model := match invRaw r x with
        | none => "ok none"
        | some t => "ok some " ++ natToHex (t / 2 ^ r.k) ++ " " ++ boolStr (rCheck r t)
      let spec := if Nat.gcd (a % m) m = 1 then
          (match invRaw r x with
           | some t => if ((t / 2 ^ r.k) * (a % m)) % m = 1 % m then "ok some " ++ natToHex (t / 2 ^ r.k) ++ " true"
                       else "ok some <inverse>"
           | none => "ok some <inverse>")
        else "ok none"
      chk model spec
  | "r.pow", [m, a, e] => do
    let m ← parseNat m; let a ← parseNat a; let e ← parseNat e
    pure <| withRing W m fun r =>
      let t := powRaw W r (rawOfNat W r a) e
      let spec := Id.run do
        let mut acc := 1 % m
        for i in [0:bitLen e] do
          let bit := bitLen e - 1 - i
          acc := (acc * acc) % m
          if e.testBit bit then acc := (acc * (a % m)) % m
        return acc
      chk ("ok " ++ natToHex (t / 2 ^ r.k) ++ " " ++ boolStr (rCheck r t)) ("ok " ++ natToHex spec ++ " true")
  | "r.iszero", [m, a] => do
    let m ← parseNat m; let a ← parseNat a
    pure <| withRing W m fun r =>
      chk ("ok " ++ boolStr (rawOfNat W r a == 0)) ("ok " ++ boolStr (a % m == 0))
  | _, _ => none

def dispatch : Dispatch := fun W op args => dispatchC13 W op args

end Dashu.Driver.NT
