import Dashu.Driver.Loop
import Dashu.Model.NT.Modular
import Dashu.Model.NT.ModInvLarge
import Dashu.Model.NT.ModLargeK
import Dashu.Model.NT.ModAllK
import Dashu.Model.NT.ModPowK
import Dashu.Model.NT.ModAddK
import Dashu.Model.NT.ModInvLargeB
import Dashu.Model.NT.ModTags
import Dashu.Model.NT.Gcd
import Dashu.Model.NT.Lehmer
import Dashu.Model.NT.Root
import Dashu.Model.NT.Zimmermann
import Dashu.Model.NT.PrimRoot
import Dashu.Model.NT.Log
import Dashu.Model.NT.Log2
/-
  Driver of group `nt` (C12, C13): runs the mirrored model; beside every result it evaluates the
  `Int`/`Nat` specification and appends ` !model-spec-mismatch` if they differ.
-/
namespace Dashu.Driver.NT
open Dashu.IO Dashu.Model Dashu.Model.NT Dashu.Driver

def chk (model spec : String) : String :=
  if model = spec then model else model ++ " !model-spec-mismatch spec=" ++ spec

def exc {α} (f : α → String) : Except PanicKind α → String
  | .ok v => "ok " ++ f v
  | .error k => "panic " ++ k.name

def resStr (e : Elem) : String := natToHex e.residue

/-- `Int.emod` as a natural number (the spec side of C13) -/
def emodNat (a : Int) (m : Nat) : Nat := (a % (m : Int)).toNat

def withRing (W : Nat) (m : Nat) (f : Ring → String) : String :=
  match Ring.new W 0 m with
  | .ok r => f r
  | .error k => "panic " ++ k.name

/-- every Elem the model produces must satisfy `Valid`; checked on every call -/
def validMark (e : Elem) : String := if decide (Valid e.ring e.raw) then "" else " !model-invalid-element"

def binSpec (op : String) (a b : Int) : Int :=
  match op with
  | "add" => a + b | "sub" => a - b | _ => a * b

/-- branch annotations (not compared; histogram in the evidence file): which arm of the mirrored code a
    case reaches -/
def kindStr : Kind → String
  | .single => "single" | .double => "double" | .large => "large"

def redTag (W : Nat) (r : Ring) (a : Int) : String :=
  let x := a.natAbs
  let sz := match r.kind with
    | .large => if x < 2 ^ (2 * W) then "small" else if wordLen W (x * 2 ^ r.k) ≥ r.n then "div." ++ redArmTag W r x else "short"
    | _ => if x < 2 ^ W then "word" else if x < 2 ^ (2 * W) then "dword"
           else if (natWords W x).length % 2 = 0 then "large-even" else "large-odd"
  "red." ++ kindStr r.kind ++ "." ++ sz ++ (if r.k = 0 then ".k0" else ".ks") ++ (if a < 0 then ".neg" else "")

def mulTag (W : Nat) (r : Ring) (a b : Nat) : String :=
  match r.kind with
  | .large =>
    (if wordLen W a + wordLen W b > r.n then "mul.large.div"
     else if (a * b) / 2 ^ r.k ≥ r.M then "mul.large.nodiv.sub" else "mul.large.nodiv.nosub") ++ "." ++ mulArmTag W r a b
  | k => "mul." ++ kindStr k

def invTag (W : Nat) (r : Ring) (raw : Nat) : String :=
  match r.kind with
  | .large =>
    let v := raw / 2 ^ r.k
    let l := wordLen W v
    "inv.large." ++ (if l = 0 then "len0" else if l = 1 then "word" else if l = 2 then "dword" else "lehmer") ++
      (if Nat.gcd v r.m = 1 then ".g1" else if wordLen W (Nat.gcd v r.m) > 1 then ".gmulti" else ".gword")
  | k => "inv." ++ kindStr k ++ (if Nat.gcd (raw / 2 ^ r.k) r.m = 1 then ".g1" else ".gN")

def powTag (W : Nat) (r : Ring) (e : Nat) : String :=
  match r.kind with
  | .large => "pow.large." ++ (if e = 0 then "e0" else if e = 1 then "e1" else "win" ++ toString (chooseWindowLen W (bitLen e)))
  | k => "pow." ++ kindStr k ++ "." ++
      (if e < 2 ^ W then (if e ≤ 2 then "e" ++ toString e else "word") else "words" ++ toString (natWords W e).length)

def ann (s : String) : String := " #" ++ s

/-- C13: every op runs the MIRRORED kernels (`Model/NT/ModKernels.lean`, `ModInvLarge.lean`: `rem_word`,
    two-step `rem_dword`, `fast_rem_by_normalized_(d)word`, `PreMulInv*::mul/sqr` through num-modular's
    dividers, `inv_large` through C12's extended-gcd kernels); `Props/C13` proves them equal to the
    `%`-level definitions (`reduce_kernels`, `mul_sqr_kernels`, `inv_div_kernels`).
    Round 5: multi-word rings run `rem_large` / `mul_normalized` on word buffers through C02's mirrored
    `div_rem_in_place` (`ModLargeK.lean`), single- and double-word `inv` runs num-modular's `invm` with machine
    arithmetic (`ModInvm.lean`); `Props/C13Link` proves them equal to the same definitions
    (`reduce_kernels_all`, `mul_sqr_kernels_all`, `inv_div_kernels_all`, `pow_kernels_all`; `pow` of multi-word rings runs
    the windowed loop on buffers below `powBufferBudget`) -/
def dispatchC13 : Dispatch := fun W op args =>
  match op, args with
  | "m.reduce", [m, a] => do
    let m ← parseNat m; let a ← parseInt a
    pure <| withRing W m fun r =>
      let e := reduceIntKA W r a
      chk ("ok " ++ resStr e ++ " " ++ natToHex e.modulus ++ validMark e)
          ("ok " ++ natToHex (emodNat a m) ++ " " ++ natToHex m) ++ ann (redTag W r a)
  | "m.add", [m, a, b] | "m.sub", [m, a, b] | "m.mul", [m, a, b] => do
    let m ← parseNat m; let a ← parseInt a; let b ← parseInt b
    let o := (op.drop 2).toString
    pure <| withRing W m fun r =>
      let x := reduceIntKA W r a; let y := reduceIntKA W r b
      let res := match o with
        | "add" => x.addKL W y | "sub" => x.subBothKL W y | _ => x.mulKL W y
      chk (exc (fun e => resStr e ++ validMark e) res) ("ok " ++ natToHex (emodNat (binSpec o a b) m))
        ++ ann (if o = "mul" then mulTag W r x.raw y.raw
                else o ++ "." ++ kindStr r.kind ++ (if o = "add" then (if x.raw + y.raw ≥ r.M then ".sub" else ".nosub")
                                                     else (if x.raw ≥ y.raw then ".noborrow" else ".borrow")) ++ addArmTag W r o x.raw y.raw)
  | "m.div", [m, a, b] => do
    let m ← parseNat m; let a ← parseInt a; let b ← parseInt b
    pure <| withRing W m fun r =>
      let x := reduceIntKA W r a; let y := reduceIntKA W r b
      let model := exc (fun e => resStr e ++ validMark e) (x.divKB W y)
      -- spec: defined iff gcd(b, m) = 1, and then q is the unique residue with q·b ≡ a
      let spec :=
        if Nat.gcd (emodNat b m) m = 1 then
          match x.divKB W y with
          | .ok q => if (q.residue * emodNat b m) % m = emodNat a m ∧ q.residue < m then "ok " ++ resStr q
                     else "ok <q with q*b = a mod m>"
          | .error _ => "ok <q with q*b = a mod m>"
        else "panic NonInvertible"
      chk model spec ++ ann ("div." ++ invTag W r y.raw)
  | "m.neg", [m, a] => do
    let m ← parseNat m; let a ← parseInt a
    pure <| withRing W m fun r =>
      let x := reduceIntKA W r a
      let e := x.negKL W
      chk ("ok " ++ resStr e ++ validMark e) ("ok " ++ natToHex (emodNat (-a) m)) ++ ann ("neg." ++ kindStr r.kind ++ addArmTag W r "neg" x.raw 0)
  | "m.dbl", [m, a] => do
    let m ← parseNat m; let a ← parseInt a
    pure <| withRing W m fun r =>
      let x := reduceIntKA W r a
      let e := x.dblBothKL W
      chk ("ok " ++ resStr e ++ validMark e) ("ok " ++ natToHex (emodNat (2 * a) m)) ++ ann ("dbl." ++ kindStr r.kind ++ addArmTag W r "dbl" x.raw x.raw)
  | "m.sqr", [m, a] => do
    let m ← parseNat m; let a ← parseInt a
    pure <| withRing W m fun r =>
      let x := reduceIntKA W r a
      let e := x.sqrKL W
      chk ("ok " ++ resStr e ++ validMark e) ("ok " ++ natToHex (emodNat (a * a) m)) ++ ann ("sqr." ++ mulTag W r x.raw x.raw)
  | "m.pow", [m, a, e] => do
    let m ← parseNat m; let a ← parseInt a; let e ← parseNat e
    pure <| withRing W m fun r =>
      let x := (reduceIntKA W r a).powKL W e
      -- spec by square-and-multiply on residues (a^e itself would be astronomically large)
      let base := emodNat a m
      let spec := Id.run do
        let mut acc := 1 % m
        for i in [0:bitLen e] do
          let bit := bitLen e - 1 - i
          acc := (acc * acc) % m
          if e.testBit bit then acc := (acc * base) % m
        return acc
      chk ("ok " ++ resStr x ++ validMark x) ("ok " ++ natToHex spec) ++ ann (powTag W r e)
  | "m.inv", [m, a] => do
    let m ← parseNat m; let a ← parseInt a
    pure <| withRing W m fun r =>
      let x := reduceIntKA W r a
      let model := match x.invKB W with
        | .error k => "panic " ++ k.name
        | .ok none => "ok none"
        | .ok (some i) => "ok some " ++ resStr i ++ validMark i
      let spec :=
        if Nat.gcd (emodNat a m) m = 1 then
          match x.invKB W with
          | .ok (some i) => if (i.residue * emodNat a m) % m = 1 % m ∧ i.residue < m then "ok some " ++ resStr i
                      else "ok some <x with a*x = 1 mod m>"
          | _ => "ok some <x with a*x = 1 mod m>"
        else "ok none"
      chk model spec ++ ann (invTag W r x.raw)
  | "m.eq", [m, a, b] => do
    let m ← parseNat m; let a ← parseInt a; let b ← parseInt b
    pure <| withRing W m fun r =>
      chk (exc boolStr ((reduceIntKA W r a).beq (reduceIntKA W r b)))
          ("ok " ++ boolStr (emodNat a m == emodNat b m))
  | "m.mix", [o, m1, m2, a, b] => do
    let m1 ← parseNat m1; let m2 ← parseNat m2; let a ← parseInt a; let b ← parseInt b
    match Ring.new W 1 m1, Ring.new W 2 m2 with
    | .ok r1, .ok r2 =>
      let x := reduceIntKA W r1 a; let y := reduceIntKA W r2 b
      let model ← match o with
        | "add" => some (exc resStr (x.addKL W y))
        | "sub" => some (exc resStr (x.subBothKL W y))
        | "mul" => some (exc resStr (x.mulKL W y))
        | "div" => some (exc resStr (x.divKB W y))
        | "eq" => some (exc boolStr (x.beq y))
        | _ => none
      let spec := if o = "div" ∧ Nat.gcd (emodNat b m2) m2 ≠ 1 then "panic NonInvertible" else "panic DifferentRings"
      pure (chk model spec)
    | .error k, _ => pure ("panic " ++ k.name)
    | _, .error k => pure ("panic " ++ k.name)
  -- ---- the num_modular::Reducer<UBig> impl: printed as `residue check`
  | "r.transform", [m, a] => do
    let m ← parseNat m; let a ← parseNat a
    pure <| withRing W m fun r =>
      let t := rawOfNatKL W r a
      chk ("ok " ++ natToHex (t / 2 ^ r.k) ++ " " ++ boolStr (rCheck r t) ++ " " ++ natToHex (r.M / 2 ^ r.k))
          ("ok " ++ natToHex (a % m) ++ " true " ++ natToHex m) ++ ann ("r." ++ redTag W r a)
  | "r.add", [m, a, b] | "r.sub", [m, a, b] | "r.mul", [m, a, b] => do
    let m ← parseNat m; let a ← parseNat a; let b ← parseNat b
    let o := (op.drop 2).toString
    pure <| withRing W m fun r =>
      let x := rawOfNatKL W r a; let y := rawOfNatKL W r b
      let t := match o with
        | "add" => rAdd r x y | "sub" => rSub r x y | _ => mulRawKL W r x y
      chk ("ok " ++ natToHex (t / 2 ^ r.k) ++ " " ++ boolStr (rCheck r t))
          ("ok " ++ natToHex (emodNat (binSpec o a b) m) ++ " true")
  | "r.neg", [m, a] | "r.dbl", [m, a] | "r.sqr", [m, a] => do
    let m ← parseNat m; let a ← parseNat a
    let o := (op.drop 2).toString
    pure <| withRing W m fun r =>
      let x := rawOfNatKL W r a
      let (t, s) : Nat × Int := match o with
        | "neg" => (rNeg r x, -(a : Int)) | "dbl" => (rAdd r x x, 2 * (a : Int)) | _ => (sqrRawKL W r x, (a : Int) * a)
      chk ("ok " ++ natToHex (t / 2 ^ r.k) ++ " " ++ boolStr (rCheck r t))
          ("ok " ++ natToHex (emodNat s m) ++ " true")
  | "r.inv", [m, a] => do
    let m ← parseNat m; let a ← parseNat a
    pure <| withRing W m fun r =>
      let x := rawOfNatKL W r a
      let model := match invRawKB W r x with
        | .error k => "panic " ++ k.name
        | .ok none => "ok none"
        | .ok (some t) => "ok some " ++ natToHex (t / 2 ^ r.k) ++ " " ++ boolStr (rCheck r t)
      let spec := if Nat.gcd (a % m) m = 1 then
          (match invRawKB W r x with
           | .ok (some t) => if ((t / 2 ^ r.k) * (a % m)) % m = 1 % m then "ok some " ++ natToHex (t / 2 ^ r.k) ++ " true"
                       else "ok some <inverse>"
           | _ => "ok some <inverse>")
        else "ok none"
      chk model spec ++ ann ("r." ++ invTag W r x)
  | "r.pow", [m, a, e] => do
    let m ← parseNat m; let a ← parseNat a; let e ← parseNat e
    pure <| withRing W m fun r =>
      let t := powRawKL W r (rawOfNatKL W r a) e
      let spec := Id.run do
        let mut acc := 1 % m
        for i in [0:bitLen e] do
          let bit := bitLen e - 1 - i
          acc := (acc * acc) % m
          if e.testBit bit then acc := (acc * (a % m)) % m
        return acc
      chk ("ok " ++ natToHex (t / 2 ^ r.k) ++ " " ++ boolStr (rCheck r t)) ("ok " ++ natToHex spec ++ " true")
  | "r.iszero", [m, a] => do
    let m ← parseNat m; let a ← parseNat a
    pure <| withRing W m fun r =>
      chk ("ok " ++ boolStr (rawOfNatKL W r a == 0)) ("ok " ++ boolStr (a % m == 0))
  | _, _ => none


-- ==================================================================== C12

def f32Hex (f : Float32) : String := natToHex f.toBits.toNat

/-- width of a primitive type name -/
def primBits : String → Option Nat
  | "u8" => some 8 | "u16" => some 16 | "u32" => some 32 | "u64" => some 64 | "u128" => some 128
  | _ => none

def gcdSpec (a b : Nat) : String :=
  if a = 0 ∧ b = 0 then "panic GcdZeroZero" else "ok " ++ natToHex (Nat.gcd a b)

def gcdExtOut (a b : Int) : Except PanicKind (Nat × Int × Int) → String
  | .error k => "panic " ++ k.name
  | .ok (g, s, t) =>
    if s * a + t * b = (g : Int) then "ok " ++ natToHex g ++ " ok"
    else "ok " ++ natToHex g ++ " bad:" ++ intToHex s ++ ":" ++ intToHex t

def gcdExtSpec (a b : Int) : String :=
  if a = 0 ∧ b = 0 then "panic GcdZeroZero" else "ok " ++ natToHex (Nat.gcd a.natAbs b.natAbs) ++ " ok"

/-- relational spec of a floor root, decided by evaluation -/
def isRoot (x n s : Nat) : Bool :=
  -- a degree above the bit length (`x < 2^n`; C12 E1: n up to usize::MAX) is decided without powering:
  -- the floor root is 0 for x = 0 and 1 otherwise (`s ≥ 2 ⇒ s^n ≥ 2^n > x`)
  if n > bitLen x then (s == 0 && x == 0) || (s == 1 && x != 0)
  else s ^ n ≤ x && x < (s + 1) ^ n

def rootOut (x n : Nat) : Except PanicKind Nat → String
  | .error k => "panic " ++ k.name
  | .ok s => if isRoot x n s then "ok " ++ natToHex s else "ok " ++ natToHex s ++ " !model-spec-mismatch not-the-floor-root"

def rootIntOut (x : Int) (n : Nat) : Except PanicKind Int → String
  | .error k => "panic " ++ k.name
  | .ok s =>
    if isRoot x.natAbs n s.natAbs ∧ (s = 0 ∨ (s < 0 ↔ x < 0)) then "ok " ++ intToHex s
    else "ok " ++ intToHex s ++ " !model-spec-mismatch not-the-truncated-root"

def estOne : Nat → Nat → Nat := fun _ _ => 1

def ilogOut (W x base : Nat) : String :=
  match logRepr W true estOne x base with
  | .error k => "panic " ++ k.name
  | .ok (e, p) =>
    if p = base ^ e ∧ p ≤ x ∧ x < p * base then "ok " ++ decStr e
    else "ok " ++ decStr e ++ " !model-spec-mismatch not-the-floor-log"

def log2bOut (b : Float32 × Float32) (num den : Nat) : String :=
  f32Hex b.1 ++ " " ++ f32Hex b.2 ++ enclosureMark b.1 b.2 num den

def flog2bOut (isF64 : Bool) (bits : Nat) (r : Option (Float32 × Float32)) : String :=
  match r with
  | none => "panic Undocumented(log2-of-nan)"
  | some b =>
    match (if isF64 then ieeeDecode 52 11 bits else ieeeDecode 23 8 bits) with
    | some (some (m, e)) =>
      let (num, den) : Nat × Nat := if e ≥ 0 then (m * 2 ^ e.toNat, 1) else (m, 2 ^ (-e).toNat)
      "ok " ++ log2bOut b num den
    | _ => "ok " ++ f32Hex b.1 ++ " " ++ f32Hex b.2

/-- what a `log2_bounds` call is about: the exact positive rational `num/den`, zero, or an infinity -/
inductive LTarget where
  | val (num den : Nat)
  | zero
  | inf

/-- the exact value(s) behind a log2-bounds op (one per reported pair of bounds) -/
def log2Targets (op : String) (args : List String) : Option (List LTarget) :=
  let ofNat (n : Nat) : LTarget := if n = 0 then .zero else .val n 1
  match op, args with
  | "u.log2b", [a] | "i.log2b", [a] => do
    let a ← parseInt a; pure [ofNat a.natAbs]
  | "f2.log2b", [s, e] | "f10.log2b", [s, e] => do
    let s ← parseInt s; let e ← parseDec e
    let B := if op = "f2.log2b" then 2 else 10
    pure [if s = 0 then .zero else if e ≥ 0 then .val (s.natAbs * B ^ e.toNat) 1 else .val s.natAbs (B ^ (-e).toNat)]
  | "q.log2b", [n, d] => do
    let n ← parseInt n; let d ← parseNat d
    if d = 0 then none else
    let t : LTarget := if n = 0 then .zero else .val n.natAbs d
    pure [t, t]                                   -- RBig and Relaxed
  | "p.log2b", [ty, a] => do
    let _ ← primBits ty; let a ← parseNat a; pure [ofNat a]
  | "p.log2brange", [ty, lo, hi] => do
    let _ ← primBits ty; let lo ← parseDecNat lo; let hi ← parseDecNat hi
    pure ((List.range (hi - lo)).map fun i => ofNat (lo + i))
  | "p.flog2b", [ty, b] =>
    match parseNat b with
    | none => none
    | some b =>
      let dec : Option (Option (Option (Nat × Int))) :=
        match ty with
        | "f32" => some (ieeeDecode 23 8 b)
        | "f64" => some (ieeeDecode 52 11 b)
        | _ => none
      match dec with
      | none => none
      | some none => none                           -- NaN: not a number, no bounds to check
      | some (some none) => some [LTarget.inf]
      | some (some (some (m, e))) =>
        some [if m = 0 then LTarget.zero
              else if e ≥ 0 then LTarget.val (m * 2 ^ e.toNat) 1 else LTarget.val m (2 ^ (-e).toNat)]
  | _, _ => none

/-- all hexadecimal numbers of an answer, in order (`ok~lb~ub`, `ok~l:u,l:u,…`, `ok~l,u~l,u`) -/
def payloadNumbers (p : String) : Option (List Nat) :=
  let body := (p.replace "~" " ").replace "," " " |>.replace ":" " "
  match body.splitOn " " |>.filter (· ≠ "") with
  | "ok" :: rest => rest.mapM parseHexNat
  | _ => none

def pairUp : List Nat → List (Nat × Nat)
  | a :: b :: rest => (a, b) :: pairUp rest
  | _ => []

/-- exact verdict on one reported pair of bounds -/
def targetMark (i : Nat) (t : LTarget) (lb ub : Nat) : String :=
  let f (x : Nat) : Float32 := Float32.ofBits (UInt32.ofNat x)
  let m := match t with
    | .val num den => enclosureMark (f lb) (f ub) num den
    | .zero => enclosureMark (f lb) (f ub) 0 1
    | .inf => if lb = 0x7f800000 ∧ ub = 0x7f800000 then "" else " !bounds-not-inf"
  if m = "" then "" else " @" ++ toString i ++ m

/-- `lb`/`ns`: the implementation's own bounds (echoed in `payload`) are checked for enclosing the
    exact logarithm; only the enclosure is promised by the property, not the bit patterns -/
def echoBounds (payload op : String) (args : List String) : Option String := do
  let ts ← log2Targets op args
  match payloadNumbers payload with
  | none => pure "ok !no-bounds-reported"
  | some ns =>
    let ps := pairUp ns
    if ps.length ≠ ts.length ∨ ns.length ≠ 2 * ts.length then pure "ok !wrong-number-of-bounds"
    else
      let marks := String.join ((List.range ts.length).map fun i =>
        match ts[i]?, ps[i]? with
        | some t, some (l, u) => targetMark i t l u
        | _, _ => "")
      pure ((payload.replace "~" " ") ++ marks)

def dispatchC12 : Dispatch := fun W op args =>
  match op, args with
  | "lb", payload :: iop :: iargs => echoBounds payload iop iargs
  | "ns", payload :: iop :: iargs => echoBounds payload iop iargs
  | "u.gcd", [a, b] | "i.gcd", [a, b] | "ui.gcd", [a, b] | "iu.gcd", [a, b] => do
    let a ← parseInt a; let b ← parseInt b
    -- every kernel mirrored, including the Lehmer loop of `gcd_in_place` for two multi-word operands
    pure (chk (exc natToHex (gcdInt W a b)) (gcdSpec a.natAbs b.natAbs))
  | "u.gcdext", [a, b] | "i.gcdext", [a, b] | "ui.gcdext", [a, b] | "iu.gcdext", [a, b] => do
    let a ← parseInt a; let b ← parseInt b
    -- multi-word × multi-word through the mirrored `gcd_ext_in_place` (Lehmer with cofactor tracking)
    pure (chk (gcdExtOut a b (gcdExtInt W (lehmerExtKernel W) a b)) (gcdExtSpec a b))
  -- roots: every kernel mirrored — the primitive table/Newton routines of dashu-base for one and two words,
  -- `sqrt_rem_large` over Zimmermann's `root::sqrt_rem` / `sqrt_rem_42` above; the floor-root relation is
  -- evaluated beside every result
  | "u.sqrt", [a] => do
    let a ← parseNat a
    pure (rootOut a 2 (.ok (sqrtReprM W (sqrtRemWordM W) (sqrtRemDwordM W) a)))
  | "u.sqrtrem", [a] => do
    let a ← parseNat a
    let (s, r) := sqrtRemReprM W (sqrtRemWordM W) (sqrtRemDwordM W) true a
    pure (if isRoot a 2 s ∧ s * s + r = a then "ok " ++ natToHex s ++ " " ++ natToHex r
          else "ok " ++ natToHex s ++ " " ++ natToHex r ++ " !model-spec-mismatch")
  | "u.cbrt", [a] => do
    let a ← parseNat a
    pure (rootOut a 3 (nthRootRepr W true a 3))
  | "u.cbrtrem", [a] => do
    let a ← parseNat a
    pure (match cbrtRemRepr W true a with
      | .error k => "panic " ++ k.name ++ " !model-spec-mismatch"
      | .ok (s, r) => if isRoot a 3 s ∧ s ^ 3 + r = a then "ok " ++ natToHex s ++ " " ++ natToHex r
                      else "ok " ++ natToHex s ++ " " ++ natToHex r ++ " !model-spec-mismatch")
  | "u.nthroot", [a, n] => do
    let a ← parseNat a; let n ← parseDecNat n
    let m := nthRootReprM W (sqrtRemWordM W) (sqrtRemDwordM W) true a n
    pure (if n = 0 then chk (exc natToHex m) "panic RootZeroth"
          else rootOut a n m)
  | "i.sqrt", [a] => do
    let a ← parseInt a
    let m := sqrtIntM W (sqrtRemWordM W) (sqrtRemDwordM W) a
    pure (if a < 0 then chk (exc natToHex m) "panic RootNegative" else rootOut a.natAbs 2 m)
  | "i.cbrt", [a] => do
    let a ← parseInt a
    pure (rootIntOut a 3 (cbrtInt W true a))
  | "i.nthroot", [a, n] => do
    let a ← parseInt a; let n ← parseDecNat n
    let m := nthRootIntM W (sqrtRemWordM W) (sqrtRemDwordM W) true a n
    pure (if n = 0 then chk (exc intToHex m) "panic RootZeroth"
          else if a < 0 ∧ n % 2 = 0 then chk (exc intToHex m) "panic RootNegative"
          else rootIntOut a n m)
  | "u.ilog", [a, b] | "i.ilog", [a, b] => do
    let a ← parseInt a; let b ← parseNat b
    pure (if a = 0 ∨ b < 2 then
            chk (match logRepr W true estOne a.natAbs b with | .ok (e, _) => "ok " ++ decStr e | .error k => "panic " ++ k.name)
                "panic LogInvalid"
          else ilogOut W a.natAbs b)
  | "u.remove", [a, f] => do
    let a ← parseNat a; let f ← parseNat f
    pure (match removeRepr a f with
      | none => chk ("ok none " ++ natToHex a) (if a = 0 ∨ f < 2 then "ok none " ++ natToHex a else "ok some")
      | some (e, q) =>
        if a ≠ 0 ∧ f ≥ 2 ∧ q * f ^ e = a ∧ q % f ≠ 0 then "ok some " ++ decStr e ++ " " ++ natToHex q
        else "ok some " ++ decStr e ++ " " ++ natToHex q ++ " !model-spec-mismatch not-the-multiplicity")
  | "u.log2b", [a] | "i.log2b", [a] => do
    let a ← parseInt a
    pure ("ok " ++ log2bOut (log2BoundsNat W a.natAbs) a.natAbs 1)
  | "f2.log2b", [s, e] | "f10.log2b", [s, e] => do
    let s ← parseInt s; let e ← parseDec e
    let B := if op = "f2.log2b" then 2 else 10
    -- `Repr::new` normalises: the full power of B is moved from the significand into the exponent
    let (s, e) : Int × Int :=
      if s = 0 then (0, 0) else
      match removeRepr s.natAbs B with
      | some (k, q) => ((if s < 0 then -(q : Int) else q), e + k)
      | none => (s, e)
    let (num, den) : Nat × Nat := if e ≥ 0 then (s.natAbs * B ^ e.toNat, 1) else (s.natAbs, B ^ (-e).toNat)
    pure ("ok " ++ log2bOut (log2BoundsFloat W B s e) num den)
  | "q.log2b", [n, d] => do
    let n ← parseInt n; let d ← parseNat d
    if d = 0 then pure "panic DivideByZero" else
    -- RBig: lowest terms; Relaxed: only the common power of two removed
    let g := Nat.gcd n.natAbs d
    let (n1, d1) : Int × Nat := if n = 0 then (0, 1) else (n / (g : Int), d / g)
    let z := min (trailingZeros n.natAbs) (trailingZeros d)
    let (n2, d2) : Int × Nat := if n = 0 then (0, 1) else (n / (2 ^ z : Nat), d / 2 ^ z)
    let one (nn : Int) (dd : Nat) : String :=
      let b := log2BoundsRat W nn dd
      f32Hex b.1 ++ "," ++ f32Hex b.2 ++ enclosureMark b.1 b.2 nn.natAbs dd
    pure ("ok " ++ one n1 d1 ++ " " ++ one n2 d2)
  -- ---- primitives of dashu_base
  | "p.gcd", [ty, a, b] => do
    let _ ← primBits ty; let a ← parseNat a; let b ← parseNat b
    pure (chk (exc natToHex (gcdPrim a b)) (gcdSpec a b))
  | "p.gcdext", [ty, a, b] => do
    let _ ← primBits ty; let a ← parseNat a; let b ← parseNat b
    -- u128 uses the two-width Euclid (half width 64), the narrower types the plain loop
    pure (chk (gcdExtOut a b (if ty = "u128" then xgcdPrimWide 64 a b else xgcdPrim a b)) (gcdExtSpec a b))
  -- the mirrored routines of base/src/ring/root.rs (tables, Newton steps, fix loops, Karatsuba step for u128,
  -- normalising wrappers); `none` = the routine would need wrap-around arithmetic on this input
  | "p.sqrtrem", [ty, a] => do
    let bits ← primBits ty; let a ← parseNat a
    pure (match sqrtRemPrimBits bits a with
      | none => "panic ArithmeticOverflow"
      | some (s, r) =>
        if isRoot a 2 s ∧ s * s + r = a then "ok " ++ natToHex s ++ " " ++ natToHex r
        else "ok " ++ natToHex s ++ " " ++ natToHex r ++ " !model-spec-mismatch")
  | "p.cbrtrem", [ty, a] => do
    let bits ← primBits ty; let a ← parseNat a
    pure (match cbrtRemPrimBits bits a with
      | none => "panic ArithmeticOverflow"
      | some (s, r) =>
        if isRoot a 3 s ∧ s ^ 3 + r = a then "ok " ++ natToHex s ++ " " ++ natToHex r
        else "ok " ++ natToHex s ++ " " ++ natToHex r ++ " !model-spec-mismatch")
  | "p.log2b", [ty, a] => do
    let _ ← primBits ty; let a ← parseNat a
    pure ("ok " ++ log2bOut (log2BoundsPrim a) a 1)
  | "p.sqrtrange", [ty, lo, hi] | "p.cbrtrange", [ty, lo, hi] | "p.log2brange", [ty, lo, hi] => do
    let bits ← primBits ty; let lo ← parseDecNat lo; let hi ← parseDecNat hi
    let item (v : Nat) : String :=
      if op = "p.sqrtrange" then
        match sqrtRemPrimBits bits v with
        | none => "overflow"
        | some (s, r) => natToHex s ++ ":" ++ natToHex r ++ (if isRoot v 2 s ∧ s * s + r = v then "" else " !model-spec-mismatch")
      else if op = "p.cbrtrange" then
        match cbrtRemPrimBits bits v with
        | none => "overflow"
        | some (s, r) => natToHex s ++ ":" ++ natToHex r ++ (if isRoot v 3 s ∧ s ^ 3 + r = v then "" else " !model-spec-mismatch")
      else
        let b := log2BoundsPrim v
        f32Hex b.1 ++ ":" ++ f32Hex b.2 ++ enclosureMark b.1 b.2 v 1
    pure ("ok " ++ ",".intercalate ((List.range (hi - lo)).map fun i => item (lo + i)))
  | "tab.log2", [_] => pure ("ok " ++ natToHex LOG2_TAB_PACKED)
  | "tab.rsqrt", [_] => pure ("ok " ++ natToHex (packBytes RSQRT_TAB))
  | "tab.rcbrt", [_] => pure ("ok " ++ natToHex (packBytes RCBRT_TAB))
  -- ---- no_std build of the libraries (table estimator): the case generator runs the harness built
  --      without the `std` feature and passes its answer as `payload`; the std harness echoes it
  | "p.flog2b", [ty, b] => do
    let b ← parseNat b
    let is64 ← (match ty with | "f32" => some false | "f64" => some true | _ => none)
    pure (flog2bOut is64 b (log2BoundsFloatPrimStd is64 b))
  | "p.gcdrow", [ty, a, lo, hi] => do
    let _ ← primBits ty; let a ← parseDecNat a; let lo ← parseDecNat lo; let hi ← parseDecNat hi
    let item (v : Nat) : String :=
      if a = 0 ∧ v = 0 then "z"
      else match gcdPrim a v, xgcdPrim a v with
        | .ok g, .ok (g2, s, t) =>
          if g = Nat.gcd a v ∧ g2 = g ∧ s * a + t * v = (g : Int) then natToHex g
          else natToHex g ++ " !model-spec-mismatch"
        | _, _ => "!model-spec-mismatch"
    pure ("ok " ++ ",".intercalate ((List.range (hi - lo)).map fun i => item (lo + i)))
  | _, _ => none

def dispatch : Dispatch := fun W op args =>
  match dispatchC13 W op args with
  | some r => some r
  | none => dispatchC12 W op args

end Dashu.Driver.NT
