import Dashu.Model.Trans.Series
/-
  Bit-exact replica of the `f32` estimates used by `float/src/{exp,log}.rs`, built from the compiled
  `Float32` / `Float` (IEEE binary32 / binary64, the same glibc `log2f`): instance of the oracle record
  `Dashu.Model.Trans.Est` that the driver of group `trans` runs the mirrored series with.  Only the driver
  uses it; the model and its theorems take the oracle as a parameter.

  Sources: `base/src/math/log.rs` (`next_up`, `next_down`, `impl_log2_bounds_for_uint!` std path:
  `log2_bounds`, `log2_est = (*self as f32).log2()`), `base/src/math/mod.rs` (default
  `log2_est = (lb + ub) / 2.`), `integer/src/log.rs` (`log2_bounds_large`), `float/src/repr.rs`
  (`digits_ub`, `digits_lb`), `float/src/log.rs` (`impl EstimatedLog2 for Repr<B>`).
  (`nextUp` … `dlbF32` are the replica of `Driver/Float.lean`, copied so that group `trans` does not depend on
  group `float`'s driver.)
-/
namespace Dashu.Driver.TransEst
open Dashu.Model.Float Dashu.Model.Trans

def nextUp (f : Float32) : Float32 :=
  let bits := f.toBits
  let abs := bits &&& 0x7fffffff
  Float32.ofBits (if abs == 0 then 1 else if bits == abs then bits + 1 else bits - 1)

def nextDown (f : Float32) : Float32 :=
  let bits := f.toBits
  let abs := bits &&& 0x7fffffff
  Float32.ofBits (if abs == 0 then 0x80000001 else if bits == abs then bits - 1 else bits + 1)

def bitLenN (n : Nat) : Nat := if n = 0 then 0 else n.log2 + 1

/-- `u128::log2_bounds` (std feature) for `0 < n < 2^128` -/
def log2BoundsSmall (n : Nat) : Float32 × Float32 :=
  let nbits := bitLenN n
  if n == 2 ^ (nbits - 1) then
    let l := Float32.ofNat (nbits - 1); (l, l)
  else if nbits ≤ 24 then
    let l := (Float32.ofNat n).log2; (nextDown l, nextUp l)
  else
    let shifted := Float32.ofNat (n >>> (nbits - 24))
    let lb := shifted.log2
    let ub := (shifted + 1).log2
    let sh := Float32.ofNat (nbits - 24)
    (nextDown (lb + sh), nextUp (ub + sh))

/-- `TypedReprRef::log2_bounds` (64-bit words) -/
def log2Bounds (n : Nat) : Float32 × Float32 :=
  if n < 2 ^ 128 then log2BoundsSmall n
  else
    let len := (bitLenN n + 63) / 64
    let hi := n >>> ((len - 2) * 64)
    let (hl, hu) := log2BoundsSmall hi
    let rem := Float32.ofNat ((len - 2) * 64)
    let adj : Float32 := 2 * Float32.ofBits 0x34000000
    ((hl + rem) * (1 - adj), (hu + rem) * (1 + adj))

def log10_2 : Float32 := Float32.ofBits 1050288283

/-- `Repr::digits_ub` on the significand -/
def dubF32 (B : Nat) (v : Int) : Nat :=
  let n := v.natAbs
  if n = 0 then 0
  else
    let ub := (log2Bounds n).2
    let log := if B = 2 then ub else if B = 10 then ub * log10_2 else ub / (log2Bounds B).1
    log.toUInt64.toNat + 1

/-- `Repr::digits_lb` on the significand -/
def dlbF32 (B : Nat) (v : Int) : Nat :=
  let n := v.natAbs
  if n = 0 then 0
  else
    let lb := (log2Bounds n).1
    let log := if B = 2 then lb else if B = 10 then lb * log10_2 else lb / (log2Bounds B).2
    log.toUInt64.toNat

/-- `usize::log2_est` / `Word::log2_est`: `(*self as f32).log2()` -/
def log2EstNat (n : Nat) : Float32 := (Float32.ofNat n).log2

/-- `IBig::log2_est` (trait default): `(lb + ub) / 2.` of the magnitude; `-inf` for zero -/
def log2EstInt (v : Int) : Float32 :=
  if v = 0 then (Float32.ofNat 0).log2
  else
    let b := log2Bounds v.natAbs
    (b.1 + b.2) / 2

/-- `logb` of `Repr::<B>::log2_est` -/
def logbEst (B : Nat) : Float32 := if isPow2 B then Float32.ofNat B.log2 else log2EstNat B

/-- `Repr::<B>::log2_est`: `logs + self.exponent as f32 * logb` -/
def reprLog2Est (B : Nat) (x : FRepr) : Float32 := log2EstInt x.signif + Float32.ofInt x.exp * logbEst B

/-- `Repr::<B>::log2_bounds` (non-zero significand) -/
def reprLog2Bounds (B : Nat) (x : FRepr) : Float32 × Float32 :=
  let ls := log2Bounds x.signif.natAbs
  let lb : Float32 × Float32 := if isPow2 B then (Float32.ofNat B.log2, Float32.ofNat B.log2) else log2Bounds B
  let e : Float := Float.ofInt x.exp
  let (lo, hi) : Float × Float :=
    if x.exp ≥ 0 then (ls.1.toFloat + e * lb.1.toFloat, ls.2.toFloat + e * lb.2.toFloat)
    else (ls.1.toFloat + e * lb.2.toFloat, ls.2.toFloat + e * lb.1.toFloat)
  (nextDown lo.toFloat32, nextUp hi.toFloat32)

/-- `f as usize` (saturating, NaN → 0) -/
def asUsize (f : Float32) : Nat := f.toUInt64.toNat

/-- `f as isize` (truncating, saturating, NaN → 0) -/
def asIsize (f : Float32) : Int := f.toInt64.toInt

def est (B : Nat) : Est where
  dub := dubF32 B
  dlb := dlbF32 B
  logQuot n := asUsize (log2EstNat n / log2EstNat B)
  powGuard bl := asUsize (Float32.ofNat bl * log2EstNat B * 2)
  log2Floor n := asUsize (log2EstNat n)
  belowInvBase x := reprLog2Est B x < -(log2EstNat B)
  tooLarge x := reprLog2Est B x > Float32.ofNat 64 + log2EstNat B + 1
  intDigits x :=
    let l := reprLog2Est B x
    if l > 0 then asUsize (l / log2EstNat B) + 1 else 0
  floorLog2 x :=
    let l := (reprLog2Bounds B x).1
    asIsize l - (if l < 0 then 1 else 0)
  powfArgDigits base exp :=
    let lnBaseUb := asUsize (reprLog2Est B base).abs + 1
    let argLog2 := reprLog2Est B exp + log2EstNat lnBaseUb
    if argLog2 > 0 then asUsize (argLog2 / log2EstNat B) + 1 else 0

end Dashu.Driver.TransEst
