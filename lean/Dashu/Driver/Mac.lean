import Dashu.Driver.Loop
import Dashu.Model.Macro.Literal
/-
  Driver of group `mac` (C20).  `mac.<kind> <plain|static> <tok>…` with kind = ubig|ibig|fbig|dbig|rbig
  and tokens `L:<literal>` `I:<ident>` `P:<punct>` `G:<literal in parentheses>`; prints what an
  accepted literal must expand to (generator path, value, and the run-time parser's answer, which is
  the same value) or `reject`.  `mac.compiled <idx> <kind> <mode> <tok>…` / `mac.cfail …`: what the
  real compiler must have produced for the same invocation (value only / rejected or accepted).
-/
namespace Dashu.Driver.Mac
open Dashu.IO Dashu.Driver Dashu.Model.Serde Dashu.Model.Macro

def strBytes (s : String) : Bytes := s.toUTF8.toList.map (·.toNat)

def parseTok (s : String) : Option Tok :=
  let body := (s.drop 2).toString
  if s.startsWith "L:" then some (.lit (strBytes body))
  else if s.startsWith "I:" then some (.ident (strBytes body))
  else if s.startsWith "P:" then (match strBytes body with
    | [c] => some (.punct c)
    | _ => none)
  else if s.startsWith "G:" then some (.group (strBytes body))
  else none

def fpStr (v : FPVal) (sep : String) : String :=
  intToHex v.signif ++ sep ++ decStr v.exp ++ sep ++ decStr v.prec

def qStr (q : QVal) (relaxed : Bool) : String :=
  intToHex q.num ++ "/" ++ natToHex q.den ++ (if relaxed then ":X" else ":R")

def rtIntStr (r : Option (Option Int)) : String :=
  match r with
  | none => "none"
  | some none => "err"
  | some (some v) => intToHex v

/-- zero denominators: the run-time parsers build `n/0` or panic; both sides print `zeroden` -/
def rtRatStr (toks : List Tok) : String :=
  match ratShape toks with
  | none => "none"
  | some (relaxed, text, base) =>
    match ratRaw text base with
    | none => "err"
    | some (n, d) => if d = 0 ∧ n ≠ 0 then "zeroden" else if d = 0 then qStr ⟨0, 1⟩ relaxed else qStr (if relaxed then qreduce2 n d else qreduce n d) relaxed

/-- (level (i) answer, level (ii) answer) -/
def literal (kind : String) (static_ : Bool) (toks : List Tok) : Option (String × String) :=
  match kind with
  | "ubig" | "ibig" =>
    let signed := kind == "ibig"
    let rt := rtIntStr (rtInt signed toks)
    -- the mirror of the code's own loop + finish (`intNew`) must agree with the prescribed value
    let mirror : Option Int := (intNew signed toks).map fun p => signedVal p.1 p.2
    let chk (s : String) : String :=
      if mirror = intLiteral signed toks then s else s ++ " !model-spec-mismatch code-mirror=" ++ (match mirror with
        | some v => intToHex v
        | none => "reject")
    match intLiteral signed toks with
    | some v => some (chk ("ok " ++ (intPath static_ v.natAbs).name ++ " " ++ intToHex v ++ " rt:" ++ rt), "ok " ++ intToHex v)
    | none => some (chk ("reject rt:" ++ rt), "reject")
  | "fbig" | "dbig" =>
    let binary := kind == "fbig"
    let rt := match rtFloat binary toks with
      | some v => fpStr v ","
      | none => "err"
    -- the mirror of the code (`parse_binary_float` / `parse_decimal_float`, statement by statement) must decide
    -- what the model prescribes (Props/C20.float_macro_is_literal)
    let mirror : Option FPVal := ((if binary then fbigNew toks else dbigAsIs toks)).map fpOfParts
    let chk (s : String) : String :=
      if mirror = floatLiteral binary toks then s else s ++ " !model-spec-mismatch code-mirror=" ++ (match mirror with
        | some v => fpStr v ","
        | none => "reject")
    match floatLiteral binary toks with
    | some v =>
      some (chk ("ok " ++ (floatPath static_ v.signif.natAbs).name ++ " " ++ fpStr v " " ++ " rt:" ++ rt), "ok " ++ fpStr v " ")
    | none => some (chk ("reject rt:" ++ rt), "reject")
  | "rbig" =>
    let rt := rtRatStr toks
    let chk (s : String) : String :=
      if ratNew toks = ratLiteral toks then s else s ++ " !model-spec-mismatch code-mirror-differs"
    match ratLiteral toks with
    | some (q, relaxed) =>
      some (chk ("ok " ++ ratPathName static_ q ++ " " ++ qStr q relaxed ++ " rt:" ++ rt), "ok " ++ qStr q relaxed)
    | none => some (chk ("reject rt:" ++ rt), "reject")
  | _ => none

/-- `eplain` / `estatic`: the `_embedded` entry points (the macros of the `dashu` meta crate): same values,
    only the namespace of the constructor paths differs -/
def parseMode (m : String) : Option Bool :=
  if m = "plain" || m = "eplain" then some false else if m = "static" || m = "estatic" then some true else none

def dispatch : Dispatch := fun _ op args =>
  match op, args with
  | "mac.compiled", _ :: kind :: mode :: toks => do
    let st ← parseMode mode
    let ts ← toks.mapM parseTok
    (literal kind st ts).map (·.2)
  | "mac.cfail", _ :: kind :: mode :: toks => do
    let st ← parseMode mode
    let ts ← toks.mapM parseTok
    (literal kind st ts).map fun r => if r.2 = "reject" then "reject" else "ok accepted"
  | _, mode :: toks =>
    if op.startsWith "mac." then do
      let st ← parseMode mode
      let ts ← toks.mapM parseTok
      (literal (op.drop 4).toString st ts).map (·.1)
    else none
  | _, _ => none

end Dashu.Driver.Mac
