import Dashu.Driver.Loop
import Dashu.Model.Int.Bits
import Dashu.Model.Int.BitsPrim
import Dashu.Model.Int.BitsSpecFast
import Dashu.Model.Int.Hist
import Dashu.Model.Int.HistX
import Dashu.Model.Int.Cmp
import Dashu.Driver.CmpCtx
/-
  Driver of group `bits` (C09, C05).  For every case it runs the mirrored model of the code as it
  is (`codeFx = true`: after the fix commits 754b193 trailing_ones_large, 94ebcdb
  are_dword_low_bits_nonzero, 283f2ad Repr::ones) and, beside it, the specification.  The line
  printed is the model's result; if the specification differs, ` !model-spec-mismatch` is appended
  (a defect of *our* model — cannot happen where the refinement theorem is proved).
-/
namespace Dashu.Driver.Bits
open Dashu.IO Dashu.Model Dashu.Driver

/-- which variant of the three once-defective functions the real code currently has -/
def codeFx : Bool := true

def chk (model spec : String) : String :=
  if model = spec then model else model ++ " !model-spec-mismatch spec=" ++ spec.replace " " "_"

def sreprToStr (W : Nat) (r : SRepr) : String :=
  let v := r.mag.value W
  if r.neg then (if v = 0 then "-0" else "-" ++ natToHex v) else natToHex v

/-- value of an unsigned result, flagged if the representation is not canonical -/
def outU (W : Nat) (r : TRepr) : String :=
  "ok " ++ natToHex (r.value W) ++ (if r.Canon W then "" else " !model-noncanon")

def outS (W : Nat) (r : SRepr) : String :=
  "ok " ++ sreprToStr W r ++ (if SCanon W r then "" else " !model-noncanon")

def optStr : Option Nat → String
  | some k => decStr k
  | none => "none"

def exc {α} (f : α → String) : Except PanicKind α → String
  | .ok a => "ok " ++ f a
  | .error k => "panic " ++ k.name

/-- (bits, signed) of a primitive type name; `usize/isize` are 64 bits on the host of the harness -/
def primType : String → Option (Nat × Bool)
  | "u8" => some (8, false) | "u16" => some (16, false) | "u32" => some (32, false)
  | "u64" => some (64, false) | "u128" => some (128, false) | "usize" => some (64, false)
  | "i8" => some (8, true) | "i16" => some (16, true) | "i32" => some (32, true)
  | "i64" => some (64, true) | "i128" => some (128, true) | "isize" => some (64, true)
  | _ => none

def primInRange (bits : Nat) (signed : Bool) (v : Int) : Bool :=
  if signed then decide (-(2 : Int) ^ (bits - 1) ≤ v ∧ v < (2 : Int) ^ (bits - 1))
  else decide (0 ≤ v ∧ v < (2 : Int) ^ bits)

def binop (op : String) : Option ((Nat → SRepr → SRepr → SRepr) × (Int → Int → Int)) :=
  match op with
  | "and" => some (ibigAnd, specAnd)
  | "or" => some (ibigOr, specOr)
  | "xor" => some (ibigXor, specXor)
  | _ => none

def uop (op : String) : Option ((Nat → TRepr → TRepr → TRepr) × (Int → Int → Int)) :=
  match op with
  | "and" => some (TRepr.bitand, specAnd)
  | "or" => some (TRepr.bitor, specOr)
  | "xor" => some (TRepr.bitxor, specXor)
  | _ => none

def bitOp : String → Option BitOp
  | "and" => some .and | "or" => some .or | "xor" => some .xor | _ => none

def specTzStr (n : Nat) : String :=
  if n = 0 then "ok none" else match specTz n with
    | some k => "ok " ++ decStr k
    | none => "ok ? !spec-failed"

def specToStr (x : Int) : String :=
  match specTo x with
  | some r => "ok " ++ optStr r
  | none => "ok ? !spec-failed"

-- ================================================================== C05 ops

def isInline : TRepr → Bool
  | .small _ => true
  | .large _ => false

def signStr (neg : Bool) : String := if neg then "-" else "+"

def bytesHex (bs : List Nat) : String :=
  "s:" ++ String.ofList (bs.flatMap fun b => [hexDigit (b / 16), hexDigit (b % 16)])

/-- float operand of the `f.*` ops: `inf`, `-inf`, or significand/exponent; returns (repr, precision) -/
def parseFloat (B : Nat) (s e p : String) : Option (FRepr × Nat) := do
  let ex ← parseDec e; let pr ← parseDecNat p
  if s = "inf" then pure (⟨0, 1⟩, 0)
  else if s = "-inf" then pure (⟨0, -1⟩, 0)
  else
    let sg ← parseInt s
    -- `FBig::from_parts`: precision = digits of the significand as given (at least 1), then normalize
    let d := max (digitsNat B sg.natAbs) 1
    if pr ≠ 0 ∧ pr < d then none
    pure ((FRepr.mk sg ex).normalize B, if pr = 0 then d else pr)

def exactDigits (B : Nat) (s : Int) : Nat := digitsNat B s.natAbs

def ordRev : Ordering → Ordering := Ordering.swap

/-- `Repr::reduce2`: strip the common power of two (what `Relaxed::from_parts` does) -/
def reduce2 (q : QRepr) : QRepr :=
  if q.num = 0 then ⟨0, 1⟩ else
  let k := min (tzWord (Nat.log2 q.num.natAbs + 1) q.num.natAbs) (tzWord (Nat.log2 q.den + 1) q.den)
  ⟨q.num / (2 : Int) ^ k, q.den / 2 ^ k⟩

def parseHOp (t : String) : Option HOp :=
  let idx (x : String) : Option Nat := x.toNat?
  match t.splitOn ":" with
  | ["const", z] => HOp.const <$> parseInt z
  | ["words", n, ws] => do
    let l ← if ws.isEmpty then some [] else (ws.splitOn ".").mapM parseHexNat
    pure (.fromWords (n == "1") l)
  | ["fu", v] => HOp.fromUnsigned <$> parseHexNat v
  | ["fs", b, v] => do pure (.fromSigned (← idx b) (← parseInt v))
  | ["ones", n] => HOp.ones <$> idx n
  | ["clone", i] => HOp.clone <$> idx i
  | ["neg", i] => HOp.neg <$> idx i
  | ["abs", i] => HOp.abs <$> idx i
  | ["not", i] => HOp.not <$> idx i
  | ["sqr", i] => HOp.sqr <$> idx i
  | ["pow", i, e] => do pure (.pow (← idx i) (← idx e))
  | ["shl", i, n] => do pure (.shl (← idx i) (← idx n))
  | ["shr", i, n, r] => do pure (.shr (← idx i) (← idx n) (r == "1"))
  | ["add", i, j, f] => do pure (.add (← idx i) (← idx j) (← idx f))
  | ["sub", i, j, f] => do pure (.sub (← idx i) (← idx j) (← idx f))
  | ["mul", i, j] => do pure (.mul (← idx i) (← idx j))
  | ["div", i, j] => do pure (.div (← idx i) (← idx j))
  | ["rem", i, j] => do pure (.rem (← idx i) (← idx j))
  | ["dive", i, j] => do pure (.divEuclid (← idx i) (← idx j))
  | ["reme", i, j] => do pure (.remEuclid (← idx i) (← idx j) false)
  | ["and", i, j] => do pure (.and (← idx i) (← idx j))
  | ["or", i, j] => do pure (.or (← idx i) (← idx j))
  | ["xor", i, j] => do pure (.xor (← idx i) (← idx j))
  | ["setbit", i, n] => do pure (.setBit (← idx i) (← idx n))
  | ["clearbit", i, n] => do pure (.clearBit (← idx i) (← idx n))
  | ["clearhigh", i, n] => do pure (.clearHigh (← idx i) (← idx n))
  | ["splitlo", i, n] => do pure (.splitLo (← idx i) (← idx n))
  | ["splithi", i, n] => do pure (.splitHi (← idx i) (← idx n))
  | ["nextpow2", i] => HOp.nextPow2 <$> idx i
  | _ => none

/-- the extended instruction set (C05 round 4): gcd, sqrt, nth_root, from_str_radix, byte decoders and byte
    round trips; everything else is an instruction of `parseHOp` -/
def parseHOpX (t : String) : Option HOpX :=
  let idx (x : String) : Option Nat := x.toNat?
  let bytes (x : String) : Option (List Nat) := (parseBytes ("s:" ++ x)).map (·.map UInt8.toNat)
  match t.splitOn ":" with
  | ["gcd", i, j] => do pure (.gcd (← idx i) (← idx j))
  | ["sqrt", i] => HOpX.sqrt <$> idx i
  | ["root", i, n] => do pure (.nthRoot (← idx i) (← idx n))
  | ["str", sg, r, tx] => do pure (.fromStr (sg == "1") (← idx r) (← bytes tx))
  | ["leb", b] => HOpX.fromLeBytes <$> bytes b
  | ["beb", b] => HOpX.fromBeBytes <$> bytes b
  | ["sleb", b] => HOpX.fromSignedLeBytes <$> bytes b
  | ["sbeb", b] => HOpX.fromSignedBeBytes <$> bytes b
  | ["vle", i] => HOpX.viaLeBytes <$> idx i
  | ["vbe", i] => HOpX.viaBeBytes <$> idx i
  | _ => HOpX.base <$> parseHOp t

def dispatchCmp : Dispatch := fun W op args =>
  match op, args with
  | "c.routes", [a] => do
    let x ← parseNat a
    let r := ofNat W x
    pure ("ok " ++ boolStr (isInline r) ++ " " ++ decStr (r.words W).length ++ " routes-agree"
      ++ (if r.Canon W then "" else " !model-noncanon"))
  | "ci.routes", [a] => do
    let x ← parseInt a
    let r := sOfInt W x
    pure ("ok " ++ signStr r.neg ++ " " ++ boolStr (isInline r.mag) ++ " " ++ decStr (r.mag.words W).length
      ++ " routes-agree" ++ (if SCanon W r then "" else " !model-noncanon"))
  | "c.cmp", [a, b, _, _] => do
    let x ← parseInt a; let y ← parseInt b
    let sx := sOfInt W x; let sy := sOfInt W y
    let m := "ok " ++ boolStr (sx.beq W sy) ++ " " ++ ordStr (sx.cmp sy) ++ " " ++ ordStr (sy.cmp sx) ++ " "
      ++ boolStr (decide (sx.hashFeed W = sy.hashFeed W))
    let s := "ok " ++ boolStr (decide (x = y)) ++ " " ++ ordStr (compare x y) ++ " " ++ ordStr (compare y x) ++ " "
      ++ boolStr (decide (x = y))
    pure (chk m s)
  | "cu.cmp", [a, b, _, _] => do
    let x ← parseNat a; let y ← parseNat b
    let sx : SRepr := ⟨false, ofNat W x⟩; let sy : SRepr := ⟨false, ofNat W y⟩
    let m := "ok " ++ boolStr (sx.beq W sy) ++ " " ++ ordStr (sx.mag.cmp sy.mag) ++ " " ++ ordStr (sy.mag.cmp sx.mag) ++ " "
      ++ boolStr (decide (sx.hashFeed W = sy.hashFeed W))
    let s := "ok " ++ boolStr (decide (x = y)) ++ " " ++ ordStr (compare x y) ++ " " ++ ordStr (compare y x) ++ " "
      ++ boolStr (decide (x = y))
    pure (chk m s)
  | "c.hist", [prog] => do
    let ops ← (prog.splitOn ",").mapM parseHOpX
    let (regs, fin) := hrunX W ops []
    let (svals, sfin) := hrunSpecX W ops []
    let status (stepRes : Option String) : String := if fin then "done" else stepRes.getD "bad"
    let st := status (match ops[regs.length]? with
      | some op => (match hstepX W regs op with | .panic k => some ("panic:" ++ k.name) | _ => some "bad")
      | none => none)
    let sst := if sfin then "done" else (match ops[svals.length]? with
      | some op => (match hspecX W svals op with | .panic k => "panic:" ++ k.name | _ => "bad")
      | none => "bad")
    let consistent := regs.all fun a => regs.all fun b =>
      let same := a.value W == b.value W
      (a.beq W b == same) && ((a.cmp b == .eq) == same) && (decide (a.hashFeed W = b.hashFeed W) == same)
        && (b.cmp a == (a.cmp b).swap)
    let canon := regs.all fun a => decide (SCanon W a)
    let m := "ok " ++ " ".intercalate (regs.map (sreprToStr W)) ++ (if regs.isEmpty then "" else " ") ++ st ++ " "
      ++ (if consistent then "consistent" else "BAD") ++ (if canon then "" else " !model-noncanon")
    let sp := "ok " ++ " ".intercalate (svals.map intToHex) ++ (if svals.isEmpty then "" else " ") ++ sst ++ " consistent"
    pure (chk m sp)
  | "c.ones", [n] => do
    let k ← parseDecNat n
    let o := reprOnes W codeFx k
    let r := ofNat W (2 ^ k - 1)
    let so : SRepr := ⟨false, o⟩; let sr : SRepr := ⟨false, r⟩
    let m := "ok " ++ boolStr (isInline o) ++ " " ++ decStr (o.words W).length ++ " " ++ boolStr (so.beq W sr) ++ " "
      ++ ordStr (o.cmp r) ++ " " ++ boolStr (decide (so.hashFeed W = sr.hashFeed W))
    let s := "ok " ++ boolStr (isInline r) ++ " " ++ decStr (r.words W).length ++ " true eq true"
    pure (chk m s)
  | "c.hashfeed", [a] => do
    let x ← parseInt a
    pure ("ok " ++ bytesHex (((sOfInt W x).hashFeed W).bytes W))
  | "f.cmp", [b, sa, ea, pa, sb, eb, pb] => do
    let B ← b.toNat?
    if B < 2 then none
    let (x, px) ← parseFloat B sa ea pa
    let (y, py) ← parseFloat B sb eb pb
    let c := reprCmpSameBase B (exactDigits B) x y (some (px, py))
    let c' := reprCmpSameBase B (exactDigits B) y x (some (py, px))
    let cr := reprCmpSameBase B (exactDigits B) x y none     -- `Ord for Repr<B>`: no precisions
    let m := "ok " ++ boolStr (fbigEq x y) ++ " " ++ ordStr c ++ " " ++ ordStr c' ++ " " ++ ordStr cr
    let sc := specFCmp B x y
    let s := "ok " ++ boolStr (sc == .eq) ++ " " ++ ordStr sc ++ " " ++ ordStr (specFCmp B y x) ++ " " ++ ordStr sc
    pure (chk m s)
  | "f.basecmp", [sa, ea, pa, p10, sb, eb] => do
    let sg ← parseInt sa; let ex ← parseDecNat ea; let _ ← parseDecNat pa; let pc ← parseDecNat p10
    -- `with_base::<10>` of a binary float with a small non-negative exponent: the exact integer
    -- `sg·2^ex`, rounded to the new precision `pc` by `repr_round` (fix 02e179b; rounding mode Zero of
    -- the harness type = truncation toward zero), then normalised
    let v := sg * (2 : Int) ^ ex
    let dg := exactDigits 10 v
    let x := if pc ≠ 0 ∧ dg > pc then (FRepr.mk (v.tdiv ((10 : Int) ^ (dg - pc))) (dg - pc : Nat)).normalize 10
             else (FRepr.mk v 0).normalize 10
    let (y, py) ← parseFloat 10 sb eb "d:0"
    let c := reprCmpSameBase 10 (exactDigits 10) x y (some (pc, py))
    let c' := reprCmpSameBase 10 (exactDigits 10) y x (some (py, pc))
    let m := "ok " ++ boolStr (fbigEq x y) ++ " " ++ ordStr c ++ " " ++ ordStr c'
    let sc := specFCmp 10 x y
    let s := "ok " ++ boolStr (sc == .eq) ++ " " ++ ordStr sc ++ " " ++ ordStr (specFCmp 10 y x)
    pure (chk m s)
  | "f.fits", [b, o, sa, ea, pa, sb, eb, pb] => do
    -- invariant check on the real code: every arithmetic result has at most precision+1 digits
    -- (theorem `Props/C05.float_results_fit` for the modelled operations); the model side is the
    -- constant the theorem predicts
    let B ← b.toNat?
    if B < 2 ∨ !(["add", "sub", "mul", "div", "sqr", "cubic", "sqrt", "addsub", "submul", "subsub"].contains o) then none
    let _ ← parseFloat B sa ea pa; let _ ← parseFloat B sb eb pb
    pure "ok true"
  | "f.viabase", [src, dst, sa, ea] => do
    -- a base-`src` float (src = dst^k) converted exactly to base `dst`: the canonical representation
    -- of the same number, equal in every sense to the directly built one
    let S ← src.toNat?; let D ← dst.toNat?
    let k ← [(16, 2, 4), (8, 2, 3), (4, 2, 2), (16, 4, 2), (9, 3, 2), (27, 3, 3), (100, 10, 2)].findSome?
      fun (t : Nat × Nat × Nat) => if t.1 = S ∧ t.2.1 = D then some t.2.2 else none
    let sg ← parseInt sa; let ex ← parseDec ea
    let x := (FRepr.mk sg (ex * (k : Int))).normalize D
    let viaSrc := (FRepr.mk sg ex).normalize S          -- what from_parts in the source base holds
    let y := (FRepr.mk viaSrc.signif (viaSrc.exp * (k : Int))).normalize D
    let m := "ok " ++ intToHex y.signif ++ " " ++ decStr y.exp ++ " " ++ boolStr (fbigEq y x) ++ " "
      ++ ordStr (reprCmpSameBase D (exactDigits D) y x none) ++ " " ++ ordStr (reprCmpSameBase D (exactDigits D) x y none)
    pure (chk m ("ok " ++ intToHex x.signif ++ " " ++ decStr x.exp ++ " true eq eq"))
  | "f.subcmp", [b, _, _, _, _, p, sr, er, sc, ec, pc] => do
    -- r = a - b is given by the generator (checked against the real code by the harness); it may carry
    -- p+1 digits — exactly the slack `float_cmp` allows
    let B ← b.toNat?
    if B < 2 then none
    let pr ← parseDecNat p
    let sg ← parseInt sr; let ex ← parseDec er
    let x := (FRepr.mk sg ex).normalize B
    let (y, py) ← parseFloat B sc ec pc
    let c := reprCmpSameBase B (exactDigits B) x y (some (pr, py))
    let c' := reprCmpSameBase B (exactDigits B) y x (some (py, pr))
    let m := "ok " ++ boolStr (fbigEq x y) ++ " " ++ ordStr c ++ " " ++ ordStr c'
    let sc' := specFCmp B x y
    pure (chk m ("ok " ++ boolStr (sc' == .eq) ++ " " ++ ordStr sc' ++ " " ++ ordStr (specFCmp B y x)))
  | "f.zero", [b, p, xa, ka] => do
    -- every producer applied to an exact zero returns the canonical zero (significand 0, exponent 0): what
    -- `normalize` makes of 0 * B^k, equal to ZERO in both senses (the base tag may carry a letter suffix
    -- selecting another rounding mode / conversion target in the harness)
    let B ← (b.takeWhile Char.isDigit).toNat?
    if B < 2 then none
    let _ ← parseDecNat p; let _ ← parseInt xa; let k ← parseDec ka
    let z := (FRepr.mk 0 k).normalize B
    let z0 : FRepr := FRepr.mk 0 0
    let c := reprCmpSameBase B (exactDigits B) z z0 none
    let tag := if fbigEq z z0 && ordStr c == "eq" then "zero-routes-agree" else "BAD model-zero"
    pure (chk ("ok " ++ intToHex z.signif ++ " " ++ decStr z.exp ++ " " ++ tag) "ok 0 d:0 zero-routes-agree")
  | "f.routes", [sa, ea] => do
    let sg ← parseInt sa; let ex ← parseDec ea
    let x := (FRepr.mk sg ex).normalize 10
    pure ("ok " ++ intToHex x.signif ++ " " ++ decStr x.exp ++ " routes-agree")
  | "q.routes", [n, d] => do
    let a : QRepr := ⟨← parseInt n, ← parseNat d⟩
    if a.den = 0 then pure "panic DivideByZero"
    else
      let r := a.reduce
      pure ("ok " ++ intToHex r.num ++ " " ++ natToHex r.den ++ " routes-agree")
  | "q.cmp", [n1, d1, n2, d2] => do
    let a : QRepr := ⟨← parseInt n1, ← parseNat d1⟩
    let b : QRepr := ⟨← parseInt n2, ← parseNat d2⟩
    if a.den = 0 ∨ b.den = 0 then pure "panic DivideByZero"
    else
      let xa := reduce2 a; let xb := reduce2 b
      let ra := a.reduce; let rb := b.reduce
      let m := "ok " ++ boolStr (reprEq xa xb) ++ " " ++ ordStr (reprCmp xa xb) ++ " " ++ ordStr (reprCmp xb xa)
        ++ " | " ++ boolStr (rbigEq ra rb) ++ " " ++ ordStr (reprCmp ra rb) ++ " " ++ ordStr (reprCmp rb ra) ++ " "
        ++ boolStr (rbigEq ra rb)
      let e := specQEq a b; let c := specQCmp a b; let c' := specQCmp b a
      let s := "ok " ++ boolStr e ++ " " ++ ordStr c ++ " " ++ ordStr c' ++ " | " ++ boolStr e ++ " " ++ ordStr c ++ " "
        ++ ordStr c' ++ " " ++ boolStr e
      pure (chk m s)
  | _, _ => Dashu.Driver.CmpCtx.dispatchCtx W op args   -- C05: ops over the float arithmetic model

/-- a `usize` argument: any natural number up to `usize::MAX` of the host (parsed as `Nat`, never truncated);
    anything larger is not a case the harness can run (`bad-op`) -/
def parseUsize (s : String) : Option Nat := do
  let k ← parseDecNat s
  if k ≤ usizeMax then pure k else none

def dispatchBits : Dispatch := fun W op args =>
  match op.splitOn ".", args with
  -- ------------------------------------------------------------ shifts
  | ["u", "shl"], [a, n] => do
    let x ← parseNat a; let k ← parseUsize n
    pure (chk (outU W ((ofNat W x).shl W k)) ("ok " ++ natToHex (x * 2 ^ k)))
  | ["u", "shr"], [a, n] => do
    let x ← parseNat a; let k ← parseUsize n
    let m0 := outU W ((ofNat W x).shr W k false); let m1 := outU W ((ofNat W x).shr W k true)
    let m := if m0 = m1 then m0 else m0 ++ " !model-forms-disagree"
    pure (chk m ("ok " ++ natToHex (fastDivPow2 x k)))
  | ["i", "shl"], [a, n] => do
    let x ← parseInt a; let k ← parseUsize n
    pure (chk (outS W (ibigShl W (sOfInt W x) k)) ("ok " ++ intToHex (specShl x k)))
  | ["i", "shr"], [a, n] => do
    let x ← parseInt a; let k ← parseUsize n
    let sx := sOfInt W x
    let m0 := "ok " ++ intToHex (ibigShr W codeFx sx k false)
    let m1 := "ok " ++ intToHex (ibigShr W codeFx sx k true)
    let m := if m0 = m1 then m0 else m0 ++ " !model-forms-disagree"
    pure (chk m ("ok " ++ intToHex (fastSpecShr x k)))
  -- ------------------------------------------------------------ bit tests
  | ["u", "bit"], [a, n] => do
    let x ← parseNat a; let k ← parseUsize n
    pure (chk ("ok " ++ boolStr ((ofNat W x).bit W k)) ("ok " ++ boolStr (fastSpecBit x k)))
  | ["i", "bit"], [a, n] => do
    let x ← parseInt a; let k ← parseUsize n
    pure (chk (exc boolStr (ibigBit W (sOfInt W x) k)) ("ok " ++ boolStr (fastSpecBit x k)))
  | ["u", "bitlen"], [a] => do
    let x ← parseNat a
    pure (chk ("ok " ++ decStr ((ofNat W x).bitLen W)) ("ok " ++ decStr (bitLenNat x)))
  | ["i", "bitlen"], [a] => do
    let x ← parseInt a
    pure (chk ("ok " ++ decStr ((sOfInt W x).mag.bitLen W)) ("ok " ++ decStr (bitLenNat x.natAbs)))
  | ["u", "setbit"], [a, n] => do
    let x ← parseNat a; let k ← parseUsize n
    pure (chk (outU W ((ofNat W x).setBit W k)) ("ok " ++ natToHex (x ||| 2 ^ k)))
  | ["u", "clearbit"], [a, n] => do
    let x ← parseNat a; let k ← parseUsize n
    pure (chk (outU W ((ofNat W x).clearBit W k)) ("ok " ++ natToHex (fastClearBit x k)))
  | ["u", "tz"], [a] => do
    let x ← parseNat a
    pure (chk (exc optStr ((ofNat W x).trailingZeros W)) (specTzStr x))
  | ["i", "tz"], [a] => do
    let x ← parseInt a
    pure (chk (exc optStr ((sOfInt W x).mag.trailingZeros W)) (specTzStr x.natAbs))
  | ["u", "to"], [a] => do
    let x ← parseNat a
    let r := ofNat W x
    pure (chk (exc decStr (r.trailingOnes W codeFx)) (specToStr x))
  | ["i", "to"], [a] => do
    let x ← parseInt a
    let sx := sOfInt W x
    pure (chk (exc optStr (ibigTrailingOnes W codeFx sx)) (specToStr x))
  | ["u", "countones"], [a] => do
    let x ← parseNat a
    pure (chk ("ok " ++ decStr ((ofNat W x).countOnes W)) ("ok " ++ decStr (popNat x)))
  | ["u", "countzeros"], [a] => do
    let x ← parseNat a
    pure (chk ("ok " ++ optStr ((ofNat W x).countZeros W))
      ("ok " ++ (if x = 0 then "none" else decStr (bitLenNat x - popNat x))))
  | ["u", "splitbits"], [a, n] => do
    let x ← parseNat a; let k ← parseUsize n
    let (lo, hi) := (ofNat W x).splitBits W k
    let nc := if lo.Canon W ∧ hi.Canon W then "" else " !model-noncanon"
    pure (chk ("ok " ++ natToHex (lo.value W) ++ " " ++ natToHex (hi.value W) ++ nc)
      ("ok " ++ natToHex (fastModPow2 x k) ++ " " ++ natToHex (fastDivPow2 x k)))
  | ["u", "clearhigh"], [a, n] => do
    let x ← parseNat a; let k ← parseUsize n
    pure (chk (outU W ((ofNat W x).clearHighBits W k)) ("ok " ++ natToHex (fastModPow2 x k)))
  | ["u", "ispow2"], [a] => do
    let x ← parseNat a
    pure (chk ("ok " ++ boolStr ((ofNat W x).isPow2 W)) ("ok " ++ boolStr (specIsPow2 x)))
  | ["u", "nextpow2"], [a] => do
    let x ← parseNat a
    pure (chk (outU W ((ofNat W x).nextPow2 W)) ("ok " ++ natToHex (specNextPow2 x)))
  | ["u", "ones"], [n] => do
    let k ← parseUsize n
    pure (chk (outU W (reprOnes W codeFx k)) ("ok " ++ natToHex (2 ^ k - 1)))
  -- ------------------------------------------------------------ bitwise binary
  | ["u", o], [a, b] => do
    let (f, s) ← uop o
    let x ← parseNat a; let y ← parseNat b
    pure (chk (outU W (f W (ofNat W x) (ofNat W y))) ("ok " ++ intToHex (s x y)))
  | ["i", o], [a, b] => do
    let (f, s) ← binop o
    let x ← parseInt a; let y ← parseInt b
    pure (chk (outS W (f W (sOfInt W x) (sOfInt W y))) ("ok " ++ intToHex (s x y)))
  | ["ui", o], [a, b] => do
    let x ← parseNat a; let y ← parseInt b
    if o = "and" then
      pure (chk (outU W (ubigIbigAnd W (ofNat W x) (sOfInt W y))) ("ok " ++ intToHex (specAnd x y)))
    else
      let (f, s) ← binop o
      pure (chk (outS W (f W ⟨false, ofNat W x⟩ (sOfInt W y))) ("ok " ++ intToHex (s x y)))
  | ["iu", o], [a, b] => do
    let x ← parseInt a; let y ← parseNat b
    if o = "and" then
      pure (chk (outU W (ibigUbigAnd W (sOfInt W x) (ofNat W y))) ("ok " ++ intToHex (specAnd x y)))
    else
      let (f, s) ← binop o
      pure (chk (outS W (f W (sOfInt W x) ⟨false, ofNat W y⟩)) ("ok " ++ intToHex (s x y)))
  | ["i", "not"], [a] => do
    let x ← parseInt a
    pure (chk (outS W (ibigNot W (sOfInt W x))) ("ok " ++ intToHex (compl x)))
  -- ------------------------------------------------------------ primitives: convert, operate, `try_into().unwrap()`
  | ["up", o], [a, ty, v] => do
    let bo ← bitOp o
    let x ← parseNat a; let (bits, signed) ← primType ty; let p ← parseInt v
    if signed ∨ !primInRange bits signed p then none
    let r := ofNat W x
    let m :=
      if bo = .and then
        let m0 := exc natToHex (ubigAndPrim W bits r p.toNat false)
        let m1 := exc natToHex (ubigAndPrim W bits r p.toNat true)
        if m0 = m1 then m0 else m0 ++ " !model-forms-disagree"
      else
        let m0 := outU W (ubigOpPrim W bo r p.toNat false)
        let m1 := outU W (ubigOpPrim W bo r p.toNat true)
        if m0 = m1 then m0 else m0 ++ " !model-forms-disagree"
    pure (chk m ("ok " ++ intToHex (bo.spec x p)))
  | ["ip", o], [a, ty, v] => do
    let bo ← bitOp o
    let x ← parseInt a; let (bits, signed) ← primType ty; let p ← parseInt v
    if !primInRange bits signed p then none
    let r := sOfInt W x
    let m :=
      if signed then
        let m0 := outS W (ibigOpPrimS W bits bo r p false)
        let m1 := outS W (ibigOpPrimS W bits bo r p true)
        if m0 = m1 then m0 else m0 ++ " !model-forms-disagree"
      else if bo = .and then
        let m0 := exc natToHex (ibigAndPrimU W bits r p.toNat false)
        let m1 := exc natToHex (ibigAndPrimU W bits r p.toNat true)
        if m0 = m1 then m0 else m0 ++ " !model-forms-disagree"
      else
        let m0 := outS W (ibigOpPrimU W bo r p.toNat false)
        let m1 := outS W (ibigOpPrimU W bo r p.toNat true)
        if m0 = m1 then m0 else m0 ++ " !model-forms-disagree"
    pure (chk m ("ok " ++ intToHex (bo.spec x p)))
  | _, _ => none

def dispatch : Dispatch := fun W op args =>
  match dispatchBits W op args with
  | some r => some r
  | none => dispatchCmp W op args

end Dashu.Driver.Bits
