import Dashu.Driver.Loop
import Dashu.Model.Int.Bits
import Dashu.Model.Int.Cmp
/-
  Driver of group `bits` (C09, C05).  For every case it runs the mirrored model of the code as it
  is (`codeFx = true`: after the fix commits 754b193 trailing_ones_large, 94ebcdb
  are_dword_low_bits_nonzero, 283f2ad Repr::ones) and, beside it, the specification.  The line
  printed is the model's result; if the specification differs, ` !model-spec-mismatch` is appended
  (a defect of *our* model — cannot happen where the refinement theorem is proved).
-/
namespace Dashu.Driver.Bits
open Dashu.IO Dashu.Model Dashu.Driver

/-- which variant of the three once-defective functions the real code currently has -/
def codeFx : Bool := true

def chk (model spec : String) : String :=
  if model = spec then model else model ++ " !model-spec-mismatch spec=" ++ spec.replace " " "_"

def sreprToStr (W : Nat) (r : SRepr) : String :=
  let v := r.mag.value W
  if r.neg then (if v = 0 then "-0" else "-" ++ natToHex v) else natToHex v

/-- value of an unsigned result, flagged if the representation is not canonical -/
def outU (W : Nat) (r : TRepr) : String :=
  "ok " ++ natToHex (r.value W) ++ (if r.Canon W then "" else " !model-noncanon")

def outS (W : Nat) (r : SRepr) : String :=
  "ok " ++ sreprToStr W r ++ (if SCanon W r then "" else " !model-noncanon")

def optStr : Option Nat → String
  | some k => decStr k
  | none => "none"

def exc {α} (f : α → String) : Except PanicKind α → String
  | .ok a => "ok " ++ f a
  | .error k => "panic " ++ k.name

/-- (bits, signed) of a primitive type name; `usize/isize` are 64 bits on the host of the harness -/
def primType : String → Option (Nat × Bool)
  | "u8" => some (8, false) | "u16" => some (16, false) | "u32" => some (32, false)
  | "u64" => some (64, false) | "u128" => some (128, false) | "usize" => some (64, false)
  | "i8" => some (8, true) | "i16" => some (16, true) | "i32" => some (32, true)
  | "i64" => some (64, true) | "i128" => some (128, true) | "isize" => some (64, true)
  | _ => none

def primInRange (bits : Nat) (signed : Bool) (v : Int) : Bool :=
  if signed then decide (-(2 : Int) ^ (bits - 1) ≤ v ∧ v < (2 : Int) ^ (bits - 1))
  else decide (0 ≤ v ∧ v < (2 : Int) ^ bits)

def binop (op : String) : Option ((Nat → SRepr → SRepr → SRepr) × (Int → Int → Int)) :=
  match op with
  | "and" => some (ibigAnd, specAnd)
  | "or" => some (ibigOr, specOr)
  | "xor" => some (ibigXor, specXor)
  | _ => none

def uop (op : String) : Option ((Nat → TRepr → TRepr → TRepr) × (Int → Int → Int)) :=
  match op with
  | "and" => some (TRepr.bitand, specAnd)
  | "or" => some (TRepr.bitor, specOr)
  | "xor" => some (TRepr.bitxor, specXor)
  | _ => none

def specTzStr (n : Nat) : String :=
  if n = 0 then "ok none" else match specTz n with
    | some k => "ok " ++ decStr k
    | none => "ok ? !spec-failed"

def specToStr (x : Int) : String :=
  match specTo x with
  | some r => "ok " ++ optStr r
  | none => "ok ? !spec-failed"

/-- C05 ops (see below) -/
def dispatchCmp : Dispatch := fun _W _op _args => none

def dispatchBits : Dispatch := fun W op args =>
  match op.splitOn ".", args with
  -- ------------------------------------------------------------ shifts
  | ["u", "shl"], [a, n] => do
    let x ← parseNat a; let k ← parseDecNat n
    pure (chk (outU W ((ofNat W x).shl W k)) ("ok " ++ natToHex (x * 2 ^ k)))
  | ["u", "shr"], [a, n] => do
    let x ← parseNat a; let k ← parseDecNat n
    let m0 := outU W ((ofNat W x).shr W k false); let m1 := outU W ((ofNat W x).shr W k true)
    let m := if m0 = m1 then m0 else m0 ++ " !model-forms-disagree"
    pure (chk m ("ok " ++ natToHex (x / 2 ^ k)))
  | ["i", "shl"], [a, n] => do
    let x ← parseInt a; let k ← parseDecNat n
    pure (chk (outS W (ibigShl W (sOfInt W x) k)) ("ok " ++ intToHex (specShl x k)))
  | ["i", "shr"], [a, n] => do
    let x ← parseInt a; let k ← parseDecNat n
    let sx := sOfInt W x
    let m0 := "ok " ++ intToHex (ibigShr W codeFx sx k false)
    let m1 := "ok " ++ intToHex (ibigShr W codeFx sx k true)
    let m := if m0 = m1 then m0 else m0 ++ " !model-forms-disagree"
    pure (chk m ("ok " ++ intToHex (specShr x k)))
  -- ------------------------------------------------------------ bit tests
  | ["u", "bit"], [a, n] => do
    let x ← parseNat a; let k ← parseDecNat n
    pure (chk ("ok " ++ boolStr ((ofNat W x).bit W k)) ("ok " ++ boolStr (specBit x k)))
  | ["i", "bit"], [a, n] => do
    let x ← parseInt a; let k ← parseDecNat n
    pure (chk (exc boolStr (ibigBit W (sOfInt W x) k)) ("ok " ++ boolStr (specBit x k)))
  | ["u", "bitlen"], [a] => do
    let x ← parseNat a
    pure (chk ("ok " ++ decStr ((ofNat W x).bitLen W)) ("ok " ++ decStr (bitLenNat x)))
  | ["i", "bitlen"], [a] => do
    let x ← parseInt a
    pure (chk ("ok " ++ decStr ((sOfInt W x).mag.bitLen W)) ("ok " ++ decStr (bitLenNat x.natAbs)))
  | ["u", "setbit"], [a, n] => do
    let x ← parseNat a; let k ← parseDecNat n
    pure (chk (outU W ((ofNat W x).setBit W k)) ("ok " ++ natToHex (x ||| 2 ^ k)))
  | ["u", "clearbit"], [a, n] => do
    let x ← parseNat a; let k ← parseDecNat n
    pure (chk (outU W ((ofNat W x).clearBit W k)) ("ok " ++ natToHex (natAndNot x (2 ^ k))))
  | ["u", "tz"], [a] => do
    let x ← parseNat a
    pure (chk (exc optStr ((ofNat W x).trailingZeros W)) (specTzStr x))
  | ["i", "tz"], [a] => do
    let x ← parseInt a
    pure (chk (exc optStr ((sOfInt W x).mag.trailingZeros W)) (specTzStr x.natAbs))
  | ["u", "to"], [a] => do
    let x ← parseNat a
    let r := ofNat W x
    pure (chk (exc decStr (r.trailingOnes W codeFx)) (specToStr x))
  | ["i", "to"], [a] => do
    let x ← parseInt a
    let sx := sOfInt W x
    pure (chk (exc optStr (ibigTrailingOnes W codeFx sx)) (specToStr x))
  | ["u", "countones"], [a] => do
    let x ← parseNat a
    pure (chk ("ok " ++ decStr ((ofNat W x).countOnes W)) ("ok " ++ decStr (popNat x)))
  | ["u", "countzeros"], [a] => do
    let x ← parseNat a
    pure (chk ("ok " ++ optStr ((ofNat W x).countZeros W))
      ("ok " ++ (if x = 0 then "none" else decStr (bitLenNat x - popNat x))))
  | ["u", "splitbits"], [a, n] => do
    let x ← parseNat a; let k ← parseDecNat n
    let (lo, hi) := (ofNat W x).splitBits W k
    let nc := if lo.Canon W ∧ hi.Canon W then "" else " !model-noncanon"
    pure (chk ("ok " ++ natToHex (lo.value W) ++ " " ++ natToHex (hi.value W) ++ nc)
      ("ok " ++ natToHex (x % 2 ^ k) ++ " " ++ natToHex (x / 2 ^ k)))
  | ["u", "clearhigh"], [a, n] => do
    let x ← parseNat a; let k ← parseDecNat n
    pure (chk (outU W ((ofNat W x).clearHighBits W k)) ("ok " ++ natToHex (x % 2 ^ k)))
  | ["u", "ispow2"], [a] => do
    let x ← parseNat a
    pure (chk ("ok " ++ boolStr ((ofNat W x).isPow2 W)) ("ok " ++ boolStr (specIsPow2 x)))
  | ["u", "nextpow2"], [a] => do
    let x ← parseNat a
    pure (chk (outU W ((ofNat W x).nextPow2 W)) ("ok " ++ natToHex (specNextPow2 x)))
  | ["u", "ones"], [n] => do
    let k ← parseDecNat n
    pure (chk (outU W (reprOnes W codeFx k)) ("ok " ++ natToHex (2 ^ k - 1)))
  -- ------------------------------------------------------------ bitwise binary
  | ["u", o], [a, b] => do
    let (f, s) ← uop o
    let x ← parseNat a; let y ← parseNat b
    pure (chk (outU W (f W (ofNat W x) (ofNat W y))) ("ok " ++ intToHex (s x y)))
  | ["i", o], [a, b] => do
    let (f, s) ← binop o
    let x ← parseInt a; let y ← parseInt b
    pure (chk (outS W (f W (sOfInt W x) (sOfInt W y))) ("ok " ++ intToHex (s x y)))
  | ["ui", o], [a, b] => do
    let x ← parseNat a; let y ← parseInt b
    if o = "and" then
      pure (chk (outU W (ubigIbigAnd W (ofNat W x) (sOfInt W y))) ("ok " ++ intToHex (specAnd x y)))
    else
      let (f, s) ← binop o
      pure (chk (outS W (f W ⟨false, ofNat W x⟩ (sOfInt W y))) ("ok " ++ intToHex (s x y)))
  | ["iu", o], [a, b] => do
    let x ← parseInt a; let y ← parseNat b
    if o = "and" then
      pure (chk (outU W (ibigUbigAnd W (sOfInt W x) (ofNat W y))) ("ok " ++ intToHex (specAnd x y)))
    else
      let (f, s) ← binop o
      pure (chk (outS W (f W (sOfInt W x) ⟨false, ofNat W y⟩)) ("ok " ++ intToHex (s x y)))
  | ["i", "not"], [a] => do
    let x ← parseInt a
    pure (chk (outS W (ibigNot W (sOfInt W x))) ("ok " ++ intToHex (compl x)))
  -- ------------------------------------------------------------ primitives: convert, operate, `try_into().unwrap()`
  | ["up", o], [a, ty, v] => do
    let (f, s) ← uop o
    let x ← parseNat a; let (bits, signed) ← primType ty; let p ← parseInt v
    if signed ∨ !primInRange bits signed p then none
    let r := f W (ofNat W x) (ofNat W p.toNat)
    let m := if o = "and" ∧ ¬ r.value W < 2 ^ bits then "panic Undocumented(unwrap)" else outU W r
    pure (chk m ("ok " ++ intToHex (s x p)))
  | ["ip", o], [a, ty, v] => do
    let (f, s) ← binop o
    let x ← parseInt a; let (bits, signed) ← primType ty; let p ← parseInt v
    if !primInRange bits signed p then none
    let r := f W (sOfInt W x) (sOfInt W p)
    let m := if o = "and" ∧ !signed ∧ (r.neg ∨ ¬ r.mag.value W < 2 ^ bits) then "panic Undocumented(unwrap)"
             else outS W r
    pure (chk m ("ok " ++ intToHex (s x p)))
  | _, _ => none

def dispatch : Dispatch := fun W op args =>
  match dispatchBits W op args with
  | some r => some r
  | none => dispatchCmp W op args

end Dashu.Driver.Bits
