import Dashu.Driver.Loop
import Dashu.Model.Float.Spec
import Dashu.Model.Float.QRound
import Dashu.Driver.FloatSoft
/-
  Driver of group `float` (C10, C03).

  Every op prints what the mirrored model computes (for `Context::mul/sqr/cubic` with
  `fixed := true`, i.e. without the pre-shrink of over-long operands — the behaviour the property
  requires, identical to the code as it is for operands of at most 2p / 3p digits) and evaluates the
  specification beside it (`roundInt` for the integer roundings and the primitives, `contractOk` /
  `contractSqrtOk` for the arithmetic): a disagreement is printed as ` !model-spec-mismatch …`.
  With `asIs := true` (environment variable `DASHU_FLOAT_ASIS`, used to validate the mirror) the
  `fixed := false` variants run and no specification is evaluated.

  Estimate oracles are instantiated by exact computations that satisfy their enclosure hypotheses:
  `coarse := coarseNone` (never decides); `dub`/`dlb` are the bit-exact `f32` replicas below, whose
  hypotheses are checked on every operand (`!est-hypothesis-failed` otherwise).
-/
namespace Dashu.Driver.Float
open Dashu.IO Dashu.Driver Dashu.Model.Float

/-! ### bit-exact replica of the `f32` estimates (`base/src/math/log.rs` std path, `integer/src/log.rs`
    `log2_bounds_large`, `float/src/repr.rs` `digits_ub` / `digits_lb`), built from the compiled
    `Float32`; only the driver uses it — the model and its theorems take the estimator as a parameter
    with the enclosure hypotheses `DubSound` / `DlbSound`, which `estSound` checks on every operand. -/

def nextUp (f : Float32) : Float32 :=
  let bits := f.toBits
  let abs := bits &&& 0x7fffffff
  Float32.ofBits (if abs == 0 then 1 else if bits == abs then bits + 1 else bits - 1)

def nextDown (f : Float32) : Float32 :=
  let bits := f.toBits
  let abs := bits &&& 0x7fffffff
  Float32.ofBits (if abs == 0 then 0x80000001 else if bits == abs then bits - 1 else bits + 1)

def bitLen (n : Nat) : Nat := if n = 0 then 0 else n.log2 + 1

/-- `u128::log2_bounds` (std feature) for `0 < n < 2^128` -/
def log2BoundsSmall (n : Nat) : Float32 × Float32 :=
  let nbits := bitLen n
  if n == 2 ^ (nbits - 1) then
    let l := Float32.ofNat (nbits - 1); (l, l)
  else if nbits ≤ 24 then
    let l := (Float32.ofNat n).log2; (nextDown l, nextUp l)
  else
    let shifted := Float32.ofNat (n >>> (nbits - 24))
    let lb := shifted.log2
    let ub := (shifted + 1).log2
    let sh := Float32.ofNat (nbits - 24)
    (nextDown (lb + sh), nextUp (ub + sh))

/-- `TypedReprRef::log2_bounds` (64-bit words): inline values by the `u128` routine, heap values by
    `log2_bounds_large` -/
def log2Bounds (n : Nat) : Float32 × Float32 :=
  if n < 2 ^ 128 then log2BoundsSmall n
  else
    let len := (bitLen n + 63) / 64
    let hi := n >>> ((len - 2) * 64)
    let (hl, hu) := log2BoundsSmall hi
    let rem := Float32.ofNat ((len - 2) * 64)
    let adj : Float32 := 2 * Float32.ofBits 0x34000000
    ((hl + rem) * (1 - adj), (hu + rem) * (1 + adj))

def log10_2 : Float32 := Float32.ofBits 1050288283

/-- `Repr::digits_ub` on the significand -/
def dubF32 (B : Nat) (v : Int) : Nat :=
  let n := v.natAbs
  if n = 0 then 0
  else
    let ub := (log2Bounds n).2
    let log := if B = 2 then ub else if B = 10 then ub * log10_2 else ub / (log2Bounds B).1
    log.toUInt64.toNat + 1

/-- `Repr::digits_lb` on the significand -/
def dlbF32 (B : Nat) (v : Int) : Nat :=
  let n := v.natAbs
  if n = 0 then 0
  else
    let lb := (log2Bounds n).1
    let log := if B = 2 then lb else if B = 10 then lb * log10_2 else lb / (log2Bounds B).2
    log.toUInt64.toNat

/-- C10: bit-exact replica of the coarse `f32` test at the head of `Round::round_fract` (`float/src/round.rs`, closure
    `test`): `(lb, ub) = fmag.log2_bounds()`, `(b_lb, b_ub) = B.log2_bounds()`;
    `lb + 0.999 > b_ub * precision as f32` ⇒ `Greater`, `ub + 1.001 < b_lb * precision as f32` ⇒ `Less`, otherwise the
    exact comparison.  `0.999f32 = 0x3F7FBE77`, `1.001f32 = 0x3F8020C5`; `precision as f32` rounds to nearest-even. -/
def coarseF32 : Coarse := fun B fmag k =>
  let (lb, ub) := log2Bounds fmag
  let (blb, bub) := log2Bounds B
  let kf : Float32 := k.toUInt64.toFloat32
  if bub * kf < lb + Float32.ofBits 0x3F7FBE77 then some .gt
  else if ub + Float32.ofBits 0x3F8020C5 < blb * kf then some .lt
  else none

def parseBool (s : String) : Option Bool :=
  match s with | "true" => some true | "false" => some false | _ => none

/-- which arm of the coarse test an operand takes (tag for the generator's histogram) -/
def coarseTag (B fmag k : Nat) : String :=
  match coarseF32 B fmag k with
  | some .gt => "coarse-gt" | some .lt => "coarse-lt" | some .eq => "coarse-eq" | none => "exact"

/-- C10 (IEEE assumption, compared per case): the same test evaluated by the integer-arithmetic soft-float replica of
    `Model/Float/SoftF32.lean` (every `+`, `*`, `as f32`, literal an exact result rounded to nearest-even; `log2f` from libm);
    a different decision or a different bit pattern of one of `lb ub b_lb b_ub (precision as f32)` and the four compared
    quantities is reported as a defect of the replica / of the assumption, never of dashu -/
def softCheck (B fmag k : Nat) : String :=
  let (lb, ub) := log2Bounds fmag
  let (blb, bub) := log2Bounds B
  let kf : Float32 := k.toUInt64.toFloat32
  let c1 := Float32.ofBits 0x3F7FBE77; let c2 := Float32.ofBits 0x3F8020C5
  let native : List Nat := [lb, ub, blb, bub, kf, bub * kf, lb + c1, ub + c2, blb * kf].map (fun f => f.toBits.toNat)
  match Dashu.Driver.FloatSoft.coarse B fmag k with
  | none => " !model-soft-f32 out-of-replica-range"
  | some (dec, bits) =>
    if dec == coarseF32 B fmag k && bits == native then "" else " !model-soft-f32 soft=" ++ toString bits ++ " native=" ++ toString native

/-- the enclosure hypotheses, checked exactly on an operand -/
def estSound (B : Nat) (v : Int) : Bool :=
  decide (dlbF32 B v ≤ digitsI B v ∧ digitsI B v ≤ dubF32 B v)

structure FArg where
  base : Nat
  signif : Int
  exp : Int
  prec : Nat
  mode : Mode

def parseMode (s : String) : Option Mode :=
  match s with
  | "Z" => some .zero | "A" => some .away | "U" => some .up | "D" => some .down
  | "E" => some .halfEven | "H" => some .halfAway | _ => none

def okBase (b : Nat) : Bool := b == 2 || b == 3 || b == 10 || b == 16 || b == 36

def parseF (s : String) : Option FArg :=
  match s.splitOn ":" with
  | ["f", b, sg, e, p, m] => do
    let base ← b.toNat?
    if !okBase base then none
    let signif ← parseInt sg
    let exp ← e.toInt?
    let prec ← p.toNat?
    let mode ← parseMode m
    pure ⟨base, signif, exp, prec, mode⟩
  | _ => none

def FArg.repr (a : FArg) : FRepr := FRepr.new a.base a.signif a.exp

/-- `FBig::from_repr` (its debug assertion is a precondition of the `f.*` ops) -/
def FArg.fbig (a : FArg) : Option FBigM :=
  let r := a.repr
  if a.prec ≠ 0 ∧ r.digits a.base > a.prec then none else some ⟨r, a.prec⟩

def flagStr : Option Rounding → String
  | none => "Exact"
  | some r => "Inexact:" ++ rName r

def reprStr (r : FRepr) (p : Nat) : String :=
  intToHex r.signif ++ " " ++ toString r.exp ++ " " ++ toString p

def fbigStr (x : FBigM) : String := reprStr x.repr x.prec

def roundedStr (r : Rounded FRepr) (p : Nat) : String := reprStr r.1 p ++ " " ++ flagStr r.2

def roundedIntStr (r : Rounded Int) : String := intToHex r.1 ++ " " ++ flagStr r.2

def exceptStr (r : Except FPanic (Rounded FRepr)) (p : Nat) : String :=
  match r with
  | .ok v => ok (roundedStr v p)
  | .error k => Dashu.Driver.panic k.name

def mism (s why : String) : String := s ++ " !model-spec-mismatch " ++ why

/-- value as a rational -/
def q (B : Nat) (r : FRepr) : Rat := r.toRat B

def ctxMax (a b : Nat) : Nat := if a > b then a else b

/-- check of the arithmetic contract for a model result; `x` exact value -/
def contractWhy (B : Nat) (m : Mode) (p : Nat) (x : Rat) (xRepresentable : Bool) (r : Rounded FRepr)
    (tight : Bool := false) : Option String :=
  if p = 0 then
    (if r.2 = none ∧ q B r.1 = x then none else some "unlimited-precision-inexact")
  else if !contractOk B m p x (q B r.1) r.2 then some "contract"
  else if xRepresentable ∧ q B r.1 ≠ x then some "representable-not-exact"
  else if r.1.digits B > p + 1 then some "more-than-p+1-digits"
  else if tight ∧ r.1.digits B > p then some "more-than-p-digits"
  else none

/-- `fallback = true` (Context methods on operands longer than the working length, for which no
    repair is proposed): when the mirrored result violates the contract, the correctly rounded
    `p`-digit value is printed as the required result instead. -/
def chkContract (asIs : Bool) (B : Nat) (m : Mode) (p : Nat) (x : Rat) (xRepresentable : Bool)
    (r : Rounded FRepr) (s : String) (fallback : Bool := false) (tight : Bool := false) : String :=
  if asIs then s
  else match contractWhy B m p x xRepresentable r tight with
    | none => s
    | some why =>
      if fallback ∧ p ≠ 0 then ok (roundedStr (specRound B m p x) p) else mism s why

def isRepresentableQ (B p : Nat) (x : Rat) : Bool :=
  -- x = n/d is representable in p digits iff d | B^k for some k and the normalised numerator fits;
  -- decided for the rationals that occur here (quotients): scale by B^(digits d * 8) is enough for
  -- d | B^k (every prime factor of d appears in B with multiplicity ≥ 1/8 of its log … bases ≤ 36)
  let k := (digits 2 x.den) + 1
  let s := B ^ k
  if s % x.den ≠ 0 then false
  else
    let n := x.num * ((s / x.den : Nat) : Int)
    decide ((FRepr.new B n 0).digits B ≤ p)

/-- C03 (round 6, addendum E1: the `isize` exponents of the operands of add / sub).  An operand exponent of magnitude ≥ 2^14
    is not turned into a rational (`B^|e|`); the contract is evaluated on REDUCED operands: add / sub depend on the
    exponents only through their difference (the common offset `t` is put back on the result), and a gap ≥ 2^14 that
    exceeds `4·(p + digits) + 64` is far beyond the far-apart threshold `digits_ub + 1 + p + 1 < ldigits + gap` of `repr_add_large_small`, where the small operand
    enters by its sign alone — it is reduced to `4·(p + digits) + 64`, still far apart.  The MODEL result is computed on
    the real exponents (its far-apart branch shifts nothing); that it equals the reduced run moved by `t` is checked here
    (`huge-exponent-reduction` otherwise).  Only for `1 ≤ p < 2^20`. -/
def addHuge (p : Nat) (x y : FRepr) : Bool :=
  1 ≤ p ∧ p < 2 ^ 20 ∧ (x.exp.natAbs ≥ 2 ^ 14 ∨ y.exp.natAbs ≥ 2 ^ 14)

def addSubHuge (asIs : Bool) (B : Nat) (m : Mode) (p : Nat) (dub : Int → Nat) (x y : FRepr) (rs : Int) : String :=
  let r := ctxAddSub B m coarseNone dub p x y rs
  -- a zero operand (exponent 0) stays as it is: only the other operand is moved to exponent 0
  let hi := if x.signif = 0 then y.exp else if y.signif = 0 then x.exp else max x.exp y.exp
  let gap := if x.signif = 0 ∨ y.signif = 0 then 0 else (hi - min x.exp y.exp).toNat
  let g0 : Nat := 4 * (p + x.digits B + y.digits B) + 64
  let g : Nat := if gap ≥ 2 ^ 14 ∧ gap > g0 then g0 else gap
  let t : Int := hi - (g : Int)
  let x' : FRepr := if x.signif = 0 then x else ⟨x.signif, if x.exp = hi then (g : Int) else 0⟩
  let y' : FRepr := if y.signif = 0 then y else ⟨y.signif, if y.exp = hi then (g : Int) else 0⟩
  let r' := ctxAddSub B m coarseNone dub p x' y' rs
  let back : FRepr := if r'.1.signif = 0 then r'.1 else ⟨r'.1.signif, r'.1.exp + t⟩
  let s := ok (roundedStr r p)
  if back ≠ r.1 ∨ r'.2 ≠ r.2 then mism s "huge-exponent-reduction"
  else if asIs then s
  else
    let lo := min x'.exp y'.exp
    let ex := q B x' + (rs : Rat) * q B y'
    let rep := representable B p (FRepr.new B (x'.signif * ((B ^ (x'.exp - lo).toNat : Nat) : Int)
        + rs * y'.signif * ((B ^ (y'.exp - lo).toNat : Nat) : Int)) lo)
    match contractWhy B m p ex rep r' with
    | none => s
    | some why => mism s why

/-- C03 (round 6, E1: `isize` exponents of the operands of div): the quotient depends on the exponents only through
    `lhs.exponent - rhs.exponent`; for an operand exponent of magnitude ≥ 2^14 the contract is evaluated on the two
    significands at exponent 0 and the MODEL result (computed on the real exponents) must be that result moved by the
    difference (`huge-exponent-reduction` otherwise).  Both operands non-zero, `1 ≤ p < 2^20`. -/
def divHuge (p : Nat) (x y : FRepr) : Bool :=
  x.signif ≠ 0 ∧ y.signif ≠ 0 ∧ 1 ≤ p ∧ p < 2 ^ 20 ∧ (x.exp.natAbs ≥ 2 ^ 14 ∨ y.exp.natAbs ≥ 2 ^ 14)

def divHugeStr (asIs : Bool) (B : Nat) (m : Mode) (p : Nat) (dub dlb : Int → Nat) (x y : FRepr) : String :=
  let t : Int := x.exp - y.exp
  let x' : FRepr := ⟨x.signif, 0⟩
  let y' : FRepr := ⟨y.signif, 0⟩
  match ctxDiv B m coarseNone dub dlb p x y, ctxDiv B m coarseNone dub dlb p x' y' with
  | .ok r, .ok r' =>
    let back : FRepr := if r'.1.signif = 0 then r'.1 else ⟨r'.1.signif, r'.1.exp + t⟩
    let s := ok (roundedStr r p)
    if back ≠ r.1 ∨ r'.2 ≠ r.2 then mism s "huge-exponent-reduction"
    else if asIs then s
    else
      let ex := q B x' / q B y'
      match contractWhy B m p ex (isRepresentableQ B p ex) r' with
      | none => s
      | some why => mism s why
  | .error k, _ => Dashu.Driver.panic k.name
  | .ok r, .error _ => mism (ok (roundedStr r p)) "huge-exponent-reduction"

def binArith (asIs : Bool) (ctxForm : Bool) (op : String) (a b : FArg) (p : Nat) : Option String := do
  if a.base ≠ b.base ∨ a.mode ≠ b.mode then none
  let B := a.base; let m := a.mode
  let fixed := !asIs
  let dub : Int → Nat := dubF32 B
  let x := a.repr; let y := b.repr
  if !ctxForm then
    let _ ← a.fbig; let _ ← b.fbig
  match op with
  | "add" | "sub" =>
    let rs : Int := if op = "add" then 1 else -1
    if addHuge p x y then pure (addSubHuge asIs B m p dub x y rs) else
    let r := ctxAddSub B m coarseNone dub p x y rs
    let ex := q B x + (rs : Rat) * q B y
    let rep := representable B p (FRepr.new B (x.signif * ((B ^ (x.exp - min x.exp y.exp).toNat : Nat) : Int)
        + rs * y.signif * ((B ^ (y.exp - min x.exp y.exp).toNat : Nat) : Int)) (min x.exp y.exp))
    pure (chkContract asIs B m p ex rep r (ok (roundedStr r p)) (x.digits B > p ∨ y.digits B > p))
  | "mul" =>
    let r := ctxMul fixed B m coarseNone p x y
    let r2 := opMul B m coarseNone p x y
    let s := ok (roundedStr r p)
    let s := if !ctxForm ∧ r ≠ r2 then s ++ " !model-forms-disagree" else s
    let rep := representable B p (FRepr.new B (x.signif * y.signif) (x.exp + y.exp))
    pure (chkContract asIs B m p (q B x * q B y) rep r s false true)
  | "div" =>
    if divHuge p x y then pure (divHugeStr asIs B m p dub (dlbF32 B) x y) else
    match ctxDiv B m coarseNone dub (dlbF32 B) p x y with
    | .error k => pure (Dashu.Driver.panic k.name)
    | .ok r =>
      let ex := q B x / q B y
      pure (chkContract asIs B m p ex (isRepresentableQ B p ex) r (ok (roundedStr r p))
        (x.digits B > y.digits B + p))
  | _ => none

/-- C03 (round 5, ROUND4 addendum E1): `sqrt` at a precision ≥ 2^62.  The scaled significand of `Context::sqrt` would have
    ≥ 2^63 digits, so the mirrored algorithm cannot be run (nor can the real one: its `precision as isize * 2` overflows);
    the REQUIRED outcome is still decidable: a radicand that is the square of a representable number has that number as
    its exact root (flag Exact); every other root has ≥ 2^62 significant digits and cannot be returned by any
    implementation (printed as the pseudo panic `ResultNeedsMemory`). -/
def sqrtHugeP (B : Nat) (p : Nat) (x : FRepr) : String :=
  if x.signif < 0 then Dashu.Driver.panic FPanic.rootNegative.name
  else
    let n := FRepr.new B x.signif x.exp
    let se : Nat × Int := if n.exp % 2 = 0 then (n.signif.natAbs, n.exp) else (n.signif.natAbs * B, n.exp - 1)
    let w := Nat.sqrt se.1
    if w * w = se.1 then ok (roundedStr (FRepr.new B (w : Int) (se.2 / 2), none) p)
    else Dashu.Driver.panic "ResultNeedsMemory"

/-- the result of `sqrt` on the operand scaled by `B^(-2t)`, scaled back by `B^t` (zero stays zero) -/
def sqrtShiftExp (r : Rounded FRepr) (t : Int) : Rounded FRepr :=
  if t = 0 ∨ r.1.signif = 0 then r else (⟨r.1.signif, r.1.exp + t⟩, r.2)

def unArith (asIs : Bool) (ctxForm : Bool) (op : String) (a : FArg) (p : Nat) : Option String := do
  let B := a.base; let m := a.mode
  let fixed := !asIs
  let x := a.repr
  if !ctxForm then
    let _ ← a.fbig
  match op with
  | "sqr" =>
    let r := ctxSqr fixed B m coarseNone p x
    let rep := representable B p (FRepr.new B (x.signif * x.signif) (2 * x.exp))
    pure (chkContract asIs B m p (q B x * q B x) rep r (ok (roundedStr r p)) false true)
  | "cubic" =>
    let r := ctxCubic fixed B m coarseNone p x
    let rep := representable B p (FRepr.new B (x.signif * x.signif * x.signif) (3 * x.exp))
    pure (chkContract asIs B m p (q B x * q B x * q B x) rep r (ok (roundedStr r p)) false true)
  | "inv" =>
    match ctxInv B m p x with
    | .error k => pure (Dashu.Driver.panic k.name)
    | .ok r =>
      let ex := 1 / q B x
      pure (chkContract asIs B m p ex (isRepresentableQ B p ex) r (ok (roundedStr r p)))
  | "sqrt" =>
    if p ≥ 2 ^ 62 then pure (sqrtHugeP B p x) else
    -- C03 (round 5, addendum E1): exponents of magnitude ≥ 2^20 are handled through the scale invariance
    -- √(s·B^(e0+2t)) = √(s·B^e0)·B^t (the exact-rational contract check below would need B^|e|): `t = 0` otherwise
    let t : Int := if x.exp.natAbs ≥ 2 ^ 20 then x.exp / 2 else 0
    let x : FRepr := ⟨x.signif, x.exp - 2 * t⟩
    match ctxSqrt B m coarseNone natSqrtRem p x with
    | .error k => pure (Dashu.Driver.panic k.name)
    | .ok r =>
      let s := ok (roundedStr (sqrtShiftExp r t) p)
      if asIs then pure s
      else if !contractSqrtOk B m p (q B x) (q B r.1) r.2 then pure (mism s "contract-sqrt")
      else if r.1.digits B > p then pure (mism s "more-than-p-digits")
      else pure s
  | _ => none

/-- the `Rounding` a mode's definition prescribes for `n + low` (`|low| < 1`) -/
def specAdj (m : Mode) (n : Int) (low : Rat) : Int := roundInt m ((n : Rat) + low) - n

def adjStr (a : Int) : String :=
  if a = 0 then "NoOp" else if a = 1 then "AddOne" else if a = -1 then "SubOne" else "adj=" ++ toString a

def qOp (ns ds : String) (f : Int → Nat → String) : Option String := do
  let n ← parseInt ns; let d ← parseNat ds
  if d = 0 then pure (Dashu.Driver.panic "DivideByZero") else pure (f n d)

/-- both public wrappers (`RBig`, `Relaxed`) must return the same thing (the harness merges them likewise) -/
def qBoth {α : Type} [DecidableEq α] (a b : α) (f : α → String) : String :=
  if a = b then f a else f a ++ " !model-forms-disagree"

def qreprStr (x : QRepr) : String := intToHex x.num ++ " " ++ natToHex x.den

/-- executable type invariant of a result: `RBig` in lowest terms / `Relaxed` not both even, zero as `0/1` -/
def qInv (rbig : Bool) (x : QRepr) : Bool :=
  decide (0 < x.den) && (x.num != 0 || x.den == 1) &&
    (if rbig then Nat.gcd x.num.natAbs x.den == 1 else !(x.num % 2 == 0 && x.den % 2 == 0))

/-- `n/d = t + f` with `|f| < 1` carrying the sign of `n/d` -/
def qFractOk (n : Int) (d : Nat) (t : Int) (f : QRepr) : Bool :=
  decide ((n : Rat) / (d : Rat) = (t : Rat) + (f.num : Rat) / (f.den : Rat)) &&
    decide (f.num.natAbs < f.den) && decide (f.num * n ≥ 0)

/-- measurement aid (driver only, not a protocol op of the harness): which alignment branch of
    `repr_add_large_small` and which re-alignment case of `repr_round_sum` an add/sub case reaches -/
def addBranchTag (B : Nat) (p : Nat) (x y : FRepr) (rs : Int) : String :=
  if x.isZero || y.isZero then "zero"
  else if x.exp = y.exp then "equal-exp"
  else
    let (l, r, rs') := if x.exp > y.exp then (x, y, rs) else ((⟨rs * y.signif, y.exp⟩ : FRepr), x, (1 : Int))
    let isSub := decide (sgn l.signif ≠ rs' * sgn r.signif)
    let rndP := p + (if isSub then 1 else 0)
    let ediff := (l.exp - r.exp).toNat
    let ld := l.digits B
    let rest := dubF32 B r.signif
    let tag (name : String) (s : Int) (lowNZ : Bool) : String :=
      let d := digitsI B s
      name ++ (if isSub then "/sub" else "/add") ++
        (if d = rndP then "/eq" else if d > rndP then "/shrink" else if lowNZ then "/pad" else "/short")
    if p ≠ 0 ∧ rest + 1 < ediff ∧ rest + 1 + rndP < ld + ediff then tag "far" l.signif true
    else if p ≠ 0 ∧ ld ≥ p then
      let hl := splitDigits B r.signif ediff
      tag "split-full" (l.signif + rs' * hl.1) (hl.2 != 0)
    else if p ≠ 0 ∧ ediff + ld > p then
      let lshift := p - ld
      let hl := splitDigits B r.signif (ediff - lshift)
      tag "split-pad" (l.signif * ((B ^ lshift : Nat) : Int) + rs' * hl.1) (hl.2 != 0)
    else tag "aligned" (l.signif * ((B ^ ediff : Nat) : Int) + rs' * r.signif) false

def estCheck (args : List String) (s : String) : String :=
  let bad := args.any fun a => match parseF a with
    | some fa => !estSound fa.base (fa.repr).signif
    | none => false
  if bad then s ++ " !est-hypothesis-failed" else s

def dispatchCore (asIs : Bool) : Dispatch := fun _W op args =>
  let fixed := !asIs
  match op, args with
  -- ---------------------------------------------------------------- C10 primitives
  | "r.fract", [ms, bs, ns, fs, ks] => do
    let m ← parseMode ms; let B ← parseDecNat bs
    if !okBase B then none
    let n ← parseInt ns; let f ← parseInt fs; let k ← parseDecNat ks
    -- the mirrored algorithm INCLUDING the coarse f32 test (replica `coarseF32`), compared with the definition of the mode
    let r := roundFract B m coarseF32 n f k
    let s := ok (rName r)
    if asIs ∨ f.natAbs ≥ B ^ k then pure s
    else
      let spec := specAdj m n ((f : Rat) / ((B ^ k : Nat) : Rat))
      let soft := if f = 0 then "" else softCheck B f.natAbs k
      pure ((if rInt r = spec then s else mism s ("spec=" ++ adjStr spec)) ++ soft)
  | "r.fracth", [ms, bs, ns, ks, ts, cs, es, negs] => do
    -- directed probe of the coarse test at huge precisions: |fract| = B^k div 2 + c·(B^k >> t) + e
    let m ← parseMode ms; let B ← parseDecNat bs
    if !okBase B then none
    let n ← parseInt ns; let k ← parseDecNat ks; let t ← parseDecNat ts
    let c ← parseInt cs; let e ← parseInt es; let neg ← parseBool negs
    let bk := B ^ k
    let mag : Int := ((bk >>> 1 : Nat) : Int) + c * ((bk >>> t : Nat) : Int) + e
    if mag ≤ 0 ∨ mag ≥ (bk : Int) then none
    let f : Int := if neg then -mag else mag
    let r := roundFract B m coarseF32 n f k
    let s := ok (rName r)
    -- specification: the exact comparison (`round_fract_follows_mode` is stated for it); no `Rat` normalisation of
    -- multi-megabit operands
    pure ((if asIs ∨ r = roundFract B m coarseNone n f k then s
          else mism s ("spec=" ++ rName (roundFract B m coarseNone n f k) ++ " " ++ coarseTag B mag.natAbs k))
          ++ (if asIs then "" else softCheck B mag.natAbs k))
  | "dbg.coarse", [bs, ks, ts, cs, es] => do
    -- measurement aid (driver only): arm of the coarse test and the exact ordering
    let B ← parseDecNat bs; let k ← parseDecNat ks; let t ← parseDecNat ts
    let c ← parseInt cs; let e ← parseInt es
    let bk := B ^ k
    let mag : Int := ((bk >>> 1 : Nat) : Int) + c * ((bk >>> t : Nat) : Int) + e
    if mag ≤ 0 then none
    let ex := compare (2 * mag.natAbs) bk
    let exs := match ex with | .lt => "lt" | .eq => "eq" | .gt => "gt"
    let (lb, ub) := log2Bounds mag.natAbs
    pure (ok (coarseTag B mag.natAbs k ++ " " ++ exs ++ " " ++ toString lb.toBits ++ " " ++ toString ub.toBits))
  | "r.ratio", [ms, bs, ns, nums, dens] => do
    let m ← parseMode ms; let B ← parseDecNat bs
    if !okBase B then none
    let n ← parseInt ns; let num ← parseInt nums; let den ← parseInt dens
    if den = 0 ∨ num.natAbs > den.natAbs then none
    let r := roundRatio m n num den
    let s := ok (rName r)
    if asIs ∨ num.natAbs = den.natAbs then pure s
    else
      let spec := specAdj m n ((num : Rat) / (den : Rat))
      pure (if rInt r = spec then s else mism s ("spec=" ++ adjStr spec))
  -- ---------------------------------------------------------------- C10 FBig roundings
  | "f.trunc", [a] => do
    let fa ← parseF a; let x ← fa.fbig
    let B := fa.base
    let r := fTrunc B (dubF32 B) x
    let s := ok (fbigStr r)
    pure (if asIs ∨ q B r.repr = (roundInt .zero (q B x.repr) : Rat) then s else mism s "trunc")
  | "f.floor", [a] => do
    let fa ← parseF a; let x ← fa.fbig
    let B := fa.base
    let r := fFloor B coarseNone (dubF32 B) x
    let s := ok (fbigStr r)
    pure (if asIs ∨ q B r.repr = (roundInt .down (q B x.repr) : Rat) then s else mism s "floor")
  | "f.ceil", [a] => do
    let fa ← parseF a; let x ← fa.fbig
    let B := fa.base
    let r := fCeil B coarseNone (dubF32 B) x
    let s := ok (fbigStr r)
    pure (if asIs ∨ q B r.repr = (roundInt .up (q B x.repr) : Rat) then s else mism s "ceil")
  | "f.round", [a] => do
    let fa ← parseF a; let x ← fa.fbig
    let B := fa.base
    let r := fRound B coarseNone (dubF32 B) x
    let s := ok (fbigStr r)
    pure (if asIs ∨ q B r.repr = (roundInt .halfAway (q B x.repr) : Rat) then s else mism s "round")
  | "f.fract", [a] => do
    let fa ← parseF a; let x ← fa.fbig
    let B := fa.base
    let r := fFract B (dubF32 B) x
    let s := ok (fbigStr r)
    pure (if asIs ∨ q B r.repr = q B x.repr - (roundInt .zero (q B x.repr) : Rat) then s else mism s "fract")
  | "f.split", [a] => do
    let fa ← parseF a; let x ← fa.fbig
    let B := fa.base
    let (t, f) := fSplitAtPoint B (dubF32 B) x
    let t2 := fTrunc B (dubF32 B) x
    let f2 := fFract B (dubF32 B) x
    let s := ok (fbigStr t ++ " " ++ fbigStr f)
    let s := if (t, f) = (t2, f2) then s else s ++ " !model-forms-disagree"
    pure (if asIs ∨ (q B t.repr = (roundInt .zero (q B x.repr) : Rat) ∧ q B t.repr + q B f.repr = q B x.repr)
      then s else mism s "split")
  | "f.to_int", [a] => do
    let fa ← parseF a; let x ← fa.fbig
    let B := fa.base
    let r := fToInt B fa.mode coarseNone (dubF32 B) x
    let s := ok (roundedIntStr r)
    let v := q B x.repr
    let want := roundInt fa.mode v
    let wantFlag : Option Int := if x.repr.exp ≥ 0 then none else some (want - roundInt .zero v)
    pure (if asIs ∨ (r.1 = want ∧ r.2.map rInt = wantFlag) then s else mism s "to_int")
  | "f.repr_to_int", [a] => do
    let fa ← parseF a
    let B := fa.base
    let x := fa.repr
    let r := reprToInt B (dubF32 B) x
    let s := ok (roundedIntStr r)
    pure (if asIs ∨ (r.1 = roundInt .zero (q B x) ∧ (r.2 = none ↔ x.exp ≥ 0)) then s else mism s "repr_to_int")
  | "f.with_precision", [a, ps] => do
    let fa ← parseF a; let x ← fa.fbig; let p ← parseDecNat ps
    let B := fa.base
    let r := fWithPrecision B fa.mode coarseNone x p
    let s := ok (fbigStr r.1 ++ " " ++ flagStr r.2)
    pure (chkContract asIs B fa.mode p (q B x.repr) (representable B p x.repr) (r.1.repr, r.2) s false true)
  -- ---------------------------------------------------------------- C03
  | "dbg.addbranch", [a, b, ps, rss] => do
    let fa ← parseF a; let fb ← parseF b; let p ← parseDecNat ps; let rs ← parseDec rss
    pure (ok (addBranchTag fa.base p fa.repr fb.repr rs))
  | "f.add", [a, b] => do let fa ← parseF a; let fb ← parseF b; binArith asIs false "add" fa fb (ctxMax fa.prec fb.prec)
  | "f.sub", [a, b] => do let fa ← parseF a; let fb ← parseF b; binArith asIs false "sub" fa fb (ctxMax fa.prec fb.prec)
  | "f.mul", [a, b] => do let fa ← parseF a; let fb ← parseF b; binArith asIs false "mul" fa fb (ctxMax fa.prec fb.prec)
  | "f.div", [a, b] => do let fa ← parseF a; let fb ← parseF b; binArith asIs false "div" fa fb (ctxMax fa.prec fb.prec)
  | "c.add", [a, b, ps] => do let fa ← parseF a; let fb ← parseF b; let p ← parseDecNat ps; binArith asIs true "add" fa fb p
  | "c.sub", [a, b, ps] => do let fa ← parseF a; let fb ← parseF b; let p ← parseDecNat ps; binArith asIs true "sub" fa fb p
  | "c.mul", [a, b, ps] => do let fa ← parseF a; let fb ← parseF b; let p ← parseDecNat ps; binArith asIs true "mul" fa fb p
  | "c.div", [a, b, ps] => do let fa ← parseF a; let fb ← parseF b; let p ← parseDecNat ps; binArith asIs true "div" fa fb p
  | "f.sqrt", [a] => do let fa ← parseF a; unArith asIs false "sqrt" fa fa.prec
  | "f.sqr", [a] => do let fa ← parseF a; unArith asIs false "sqr" fa fa.prec
  | "f.cubic", [a] => do let fa ← parseF a; unArith asIs false "cubic" fa fa.prec
  | "f.inv", [a] => do let fa ← parseF a; unArith asIs false "inv" fa fa.prec
  | "c.sqrt", [a, ps] => do let fa ← parseF a; let p ← parseDecNat ps; unArith asIs true "sqrt" fa p
  | "c.sqr", [a, ps] => do let fa ← parseF a; let p ← parseDecNat ps; unArith asIs true "sqr" fa p
  | "c.cubic", [a, ps] => do let fa ← parseF a; let p ← parseDecNat ps; unArith asIs true "cubic" fa p
  | "c.inv", [a, ps] => do let fa ← parseF a; let p ← parseDecNat ps; unArith asIs true "inv" fa p
  -- ---------------------------------------------------------------- rational/src/round.rs
  -- every op runs the mirrored `Repr` method through BOTH public wrappers, on the representation each type holds after
  -- `from_parts` (`RBig`: lowest terms, `Relaxed`: common powers of two removed); `qBoth` requires them to agree
  | "q.trunc", [ns, ds] => qOp ns ds fun n d =>
    qBoth (rbigTrunc (rbigFromParts n d)) (relaxedTrunc (relaxedFromParts n d)) fun r =>
    let s := ok (intToHex r)
    if r = roundInt .zero ((n : Rat) / (d : Rat)) then s else mism s "q.trunc"
  | "q.floor", [ns, ds] => qOp ns ds fun n d =>
    qBoth (rbigFloor (rbigFromParts n d)) (relaxedFloor (relaxedFromParts n d)) fun r =>
    let s := ok (intToHex r)
    if r = roundInt .down ((n : Rat) / (d : Rat)) then s else mism s "q.floor"
  | "q.ceil", [ns, ds] => qOp ns ds fun n d =>
    qBoth (rbigCeil (rbigFromParts n d)) (relaxedCeil (relaxedFromParts n d)) fun r =>
    let s := ok (intToHex r)
    if r = roundInt .up ((n : Rat) / (d : Rat)) then s else mism s "q.ceil"
  | "q.round", [ns, ds] => qOp ns ds fun n d =>
    qBoth (rbigRound (rbigFromParts n d)) (relaxedRound (relaxedFromParts n d)) fun r =>
    let s := ok (intToHex r)
    if r = roundInt .halfAway ((n : Rat) / (d : Rat)) then s else mism s "q.round"
  | "q.fract", [ns, ds] => qOp ns ds fun n d =>
    let fr := rbigFract (rbigFromParts n d)
    let fx := relaxedFract (relaxedFromParts n d)
    qBoth ((fr.num : Rat) / (fr.den : Rat)) ((fx.num : Rat) / (fx.den : Rat)) fun f =>
    let s := ok (intToHex f.num ++ " " ++ natToHex f.den)
    if f = (n : Rat) / (d : Rat) - (roundInt .zero ((n : Rat) / (d : Rat)) : Rat) then s else mism s "q.fract"
  | "q.split", [ns, ds] => qOp ns ds fun n d =>
    let (tr, fr) := rbigSplitAtPoint (rbigFromParts n d)
    let (tx, fx) := relaxedSplitAtPoint (relaxedFromParts n d)
    qBoth (tr, (fr.num : Rat) / (fr.den : Rat)) (tx, (fx.num : Rat) / (fx.den : Rat)) fun (t, f) =>
    let s := ok (intToHex t ++ " " ++ intToHex f.num ++ " " ++ natToHex f.den)
    if (t : Rat) + f = (n : Rat) / (d : Rat) ∧ t = roundInt .zero ((n : Rat) / (d : Rat)) then s else mism s "q.split"
  -- the fraction exactly as each type holds it (numerator, denominator; `RBig` first, then `Relaxed`)
  | "q.fract_raw", [ns, ds] => qOp ns ds fun n d =>
    let xr := rbigFromParts n d
    let xx := relaxedFromParts n d
    let fr := rbigFract xr
    let fx := relaxedFract xx
    let s := ok (qreprStr fr ++ " " ++ qreprStr fx)
    if qInv true fr ∧ qInv false fx ∧ qFractOk n d xr.trunc fr ∧ qFractOk n d xx.trunc fx then s else mism s "q.fract_raw"
  | "q.split_raw", [ns, ds] => qOp ns ds fun n d =>
    let (tr, fr) := rbigSplitAtPoint (rbigFromParts n d)
    let (tx, fx) := relaxedSplitAtPoint (relaxedFromParts n d)
    let s := ok (intToHex tr ++ " " ++ qreprStr fr ++ " " ++ intToHex tx ++ " " ++ qreprStr fx)
    if qInv true fr ∧ qInv false fx ∧ qFractOk n d tr fr ∧ qFractOk n d tx fx ∧
       tr = roundInt .zero ((n : Rat) / (d : Rat)) ∧ tx = tr then s else mism s "q.split_raw"
  | _, _ => none

def dispatchWith (asIs : Bool) : Dispatch := fun W op args =>
  match Dashu.Driver.FloatSoft.dispatch W op args with
  | some r => some r            -- `s32.*` (C10: single IEEE operations / log2_bounds against the soft-float model)
  | none => (dispatchCore asIs W op args).map (estCheck args)

end Dashu.Driver.Float
