import Dashu.Driver.Loop
import Dashu.Model.Int.FloatHist
import Dashu.Model.Int.Cmp
import Dashu.Model.Conv.Ieee
/-
  C05 (round 6) driver op `f.from d:<32|64> <bits>`: `FBig::<R, 2>::try_from(f32 / f64)` as a PRODUCER of floats.
  The model side runs the history instruction `FOp.fromFloat` (`Model/Int/FloatHist.lean` — the definition the float
  history theorem `Props/C05.float_history` is about) on the pair that C06's mirrored `decode` (`Model/Conv/Ieee.lean`)
  returns, and compares the register with the `from_parts` register of the same pair through the model's `==` / `cmp`.
  The spec side is the contract: the same value `man·2^exp`, odd significand (zero as `0·2^0`), precision = bit length
  of the mantissa (0 = unlimited for ±0.0), the two routes `==` and `cmp Equal`.
-/
namespace Dashu.Driver.CmpFrom
open Dashu.IO Dashu.Driver Dashu.Model Dashu.Model.Float

def chk (model spec : String) : String :=
  if model = spec then model else model ++ " !model-spec-mismatch spec=" ++ spec.replace " " "_"

/-- strip factors of two (fuel = bit length) -/
def strip2 : Nat → Int → Int → Int × Int
  | 0, s, e => (s, e)
  | f + 1, s, e => if s ≠ 0 ∧ s % 2 = 0 then strip2 f (s / 2) (e + 1) else (s, e)

def dispatchFrom : Dispatch := fun _ op args =>
  match op, args with
  | "f.from", [ty, ba] => do
    let t ← parseDecNat ty; let bits ← parseNat ba
    let d ← if t = 32 then some Conv.f32Dec else if t = 64 then some Conv.f64Dec else none
    if bits ≥ 2 ^ t then none
    match Conv.decode d bits with
    | .error .nan => pure "ok err"
    | .error .infinite => pure (if bits >>> d.signShr > 0 then "ok -inf" else "ok inf")
    | .ok (man, exp) =>
      let k : FCfg := ⟨2, .zero, coarseNone, fun s => digitsI 2 s, fun s => digitsI 2 s, natSqrtRem⟩
      let x ← fstep k [] (.fromFloat man exp)
      let y ← fstep k [] (.fromParts man exp)
      let xr : Dashu.Model.FRepr := ⟨x.r.signif, x.r.exp⟩
      let yr : Dashu.Model.FRepr := ⟨y.r.signif, y.r.exp⟩
      let dg := fun (s : Int) => digitsNat 2 s.natAbs
      let agree := fbigEq xr yr && reprCmpSameBase 2 dg xr yr (some (x.p, y.p)) == .eq
        && reprCmpSameBase 2 dg yr xr (some (y.p, x.p)) == .eq
      let m := "ok " ++ intToHex x.r.signif ++ " " ++ decStr x.r.exp ++ " " ++ decStr x.p
        ++ (if agree then " routes-agree" else " BAD model-routes")
      let (ss, se) := if man = 0 then ((0 : Int), (0 : Int)) else strip2 (man.natAbs.log2 + 1) man exp
      let sp : Nat := if man = 0 then 0 else man.natAbs.log2 + 1
      let s := "ok " ++ intToHex ss ++ " " ++ decStr se ++ " " ++ decStr sp ++ " routes-agree"
      pure (chk m s)
  | _, _ => none

end Dashu.Driver.CmpFrom
