import Dashu.Gen.DivPlumbing
namespace Dashu.Wip.C02
open Dashu Dashu.Model Dashu.Model.Div Dashu.Model.DivPlumbing Dashu.Gen.DivPlumbing

def isTake : Core → Bool
  | .take _ => true
  | _ => false

theorem plumbing_table_routes : table.all Entry.routeOk = true := by decide

theorem plumbing_table_forwards :
    table.all (fun e => match e.core with
      | .take t => (forwardTarget table e t).any (fun e' => !isTake e'.core)
      | _ => true) = true := by decide

/-- ownership closure: with an entry, the entries of the same trait and operand types in every other
    ownership form the trait family offers are listed too -/
theorem plumbing_table_forms :
    table.all (fun e =>
      let has (lr rr : Bool) := table.any (fun x => x.tr == e.tr && x.lhs == e.lhs && x.rhs == e.rhs &&
        x.lhsRef == lr && x.rhsRef == rr && x.core == e.core)
      match e.core, e.rhs with
      | .take _, .ConstDivisor => true
      | .take _, _ => has false false && has false true
      | _, .ConstDivisor => has false true && has true true
      | _, _ => has false false && has false true && has true false && has true true) = true := by decide

end Dashu.Wip.C02
