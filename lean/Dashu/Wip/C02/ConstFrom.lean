import Dashu.Model.Int.DivConst
import Dashu.Proofs.Int.Div
namespace Dashu.Wip.C02
open Dashu Dashu.Model Dashu.Model.Div

theorem fromWord_eq_new (W word : Nat) (hw : word < 2 ^ W) :
    ConstDiv.fromWord W word = ConstDiv.new W (.small word) := by
  unfold ConstDiv.fromWord
  by_cases h0 : word = 0
  · subst h0; simp [ConstDiv.new]
  · rw [if_neg h0]
    unfold constSingleNew
    rw [if_neg h0]
    cases word with
    | zero => exact absurd rfl h0
    | succ n => simp only [ConstDiv.new, if_pos hw]

theorem fromDword_eq_new (W dword : Nat) :
    ConstDiv.fromDword W dword = ConstDiv.new W (.small dword) := by
  unfold ConstDiv.fromDword
  by_cases h0 : dword = 0
  · subst h0; simp [ConstDiv.new]
  · rw [if_neg h0]
    have hp : 0 < 2 ^ W := Nat.pos_of_ne_zero (by exact Nat.ne_of_gt (Nat.two_pow_pos W))
    cases dword with
    | zero => exact absurd rfl h0
    | succ n =>
      by_cases hw : n + 1 < 2 ^ W
      · have e : shrinkDword W (n + 1) = some (n + 1) := by
          unfold shrinkDword
          rw [if_pos (Nat.div_eq_of_lt hw), Nat.mod_eq_of_lt hw]
        simp only [e, ConstDiv.new, if_pos hw]
        unfold constSingleNew
        rw [if_neg h0]
      · have e : shrinkDword W (n + 1) = none := by
          unfold shrinkDword
          rw [if_neg]
          intro h
          have := (Nat.div_eq_zero_iff_lt hp).mp h
          exact hw this
        simp only [e, ConstDiv.new, if_neg hw]
        unfold constDoubleNew
        rw [if_neg hw]

end Dashu.Wip.C02
