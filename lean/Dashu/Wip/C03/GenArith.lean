import Dashu.Gen.FloatMul
import Dashu.Gen.FloatDiv
import Dashu.Props.GenFloatForms
import Dashu.Proofs.Float.Sqrt
set_option linter.unusedSimpArgs false
namespace Dashu.Props.GenFloatArith
open Dashu Dashu.Gen Dashu.GluePrelude Dashu.Proofs.Gen Dashu.Model.Float Dashu.Props.GenFloatOps Dashu.Props.GenFloatAdd
  Dashu.Props.GenFloatForms

/-- the kernel record of the hand model for `mul.rs` / `div.rs`: `modelK` plus the `digits_lb` oracle and the model's
    `roundRatio` -/
def modelK2 (B : Nat) (m : Mode) (c : Coarse) (dub dlb : Int → Nat) : FloatK2 Unit where
  toFloatK := modelK B m c dub
  digits_lb := fun r => (dlb r.significand : Int)
  round_ratio := fun q r d => roundRatio m q r d

theorem modelK2_toFloatK (B : Nat) (m : Mode) (c : Coarse) (dub dlb : Int → Nat) :
    (modelK2 B m c dub dlb).toFloatK = modelK B m c dub := rfl
theorem modelK2_digits (B : Nat) (m : Mode) (c : Coarse) (dub dlb : Int → Nat) (r : GluePrelude.FRepr) :
    (modelK2 B m c dub dlb).digits r = (digitsI B r.significand : Int) := rfl
theorem modelK2_repr_new (B : Nat) (m : Mode) (c : Coarse) (dub dlb : Int → Nat) (s e : Int) :
    (modelK2 B m c dub dlb).repr_new s e = ⟨(Model.Float.FRepr.new B s e).signif, (Model.Float.FRepr.new B s e).exp⟩ := rfl

theorem modelK_digits (B : Nat) (m : Mode) (c : Coarse) (dub : Int → Nat) (s e : Int) :
    (modelK B m c dub).digits ⟨s, e⟩ = (digitsI B s : Int) := rfl

theorem two_mul_cast (p : Nat) : (2 : Int) * (p : Int) = ((2 * p : Nat) : Int) := by omega
theorem three_mul_cast (p : Nat) : (3 : Int) * (p : Int) = ((3 * p : Nat) : Int) := by omega

theorem context_mul_is_model (B : Nat) (m : Mode) (c : Coarse) (dub dlb : Int → Nat) (p : Nat) (ls le rs re : Int)
    (hl : (digitsI B ls : Int) ≤ usize_MAX) (hr : (digitsI B rs : Int) ≤ usize_MAX) :
    Context_mul (modelK2 B m c dub dlb) ⟨(p : Int)⟩ ⟨ls, le⟩ ⟨rs, re⟩ =
      if (ls = 0 ∧ le ≠ 0) ∨ (rs = 0 ∧ re ≠ 0) then .error .OperateWithInf
      else .ok (Approx.map (fun v => (⟨v, ⟨(p : Int)⟩⟩ : GluePrelude.FBig))
        (toGA toG (ctxMul false B m c p ⟨ls, le⟩ ⟨rs, re⟩))) := by
  unfold Context_mul ctxMul
  simp only [assert_finite_operands, Repr_is_infinite, is_zero_int, eq_int, ne_int, Context_is_limited, lt_int, mul_int,
    two_mul_cast]
  by_cases h1 : ls = 0 ∧ le ≠ 0
  · simp [h1]
  by_cases h2 : rs = 0 ∧ re ≠ 0
  · simp [h2]
  have h12 : ¬ (ls = 0 ∧ le ≠ 0 ∨ rs = 0 ∧ re ≠ 0) := by intro h; cases h <;> contradiction
  have hg : (decide (ls = 0) && !decide (le = 0) || decide (rs = 0) && !decide (re = 0)) = false := by
    simpa using h12
  simp only [hg, h12, if_false, Bool.false_eq_true, modelK2_digits, modelK2_toFloatK, modelK_digits]
  unfold preShrink
  simp only [Model.Float.FRepr.digits, Context_new, gt_iff_lt]
  by_cases hp : p = 0
  · subst hp
    have ha : ¬ (usize_MAX < (digitsI B ls : Int)) := by omega
    have hb : ¬ (usize_MAX < (digitsI B rs : Int)) := by omega
    have rr : ∀ s e : Int, Context_repr_round (modelK B m c dub) ⟨(0 : Int)⟩ ⟨s, e⟩ =
        if s = 0 ∧ e ≠ 0 then .error .OperateWithInf else .ok (toGA toG (reprRound B m c 0 ⟨s, e⟩)) :=
      fun s e => repr_round_is_model B m c dub 0 s e
    simp [ha, hb, modelK_repr_new, rr, new_not_inf, toG, FBig_new]
  · have hp' : ¬ ((p : Int) = 0) := by omega
    simp only [hp', decide_false, Bool.not_false, if_true, Int.ofNat_lt, hp, ne_eq, not_false_eq_true, true_and]
    by_cases hA : 2 * p < digitsI B ls <;> by_cases hB : 2 * p < digitsI B rs <;>
      simp only [hA, hB, decide_true, decide_false, if_true, if_false, Bool.false_eq_true, repr_round_ref_is_model, h1, h2,
        value_toGA, modelK_repr_new, repr_round_is_model, new_not_inf, toG, add_int, FBig_new]


theorem rr0 (B : Nat) (m : Mode) (c : Coarse) (dub : Int → Nat) (s e : Int) :
    Context_repr_round (modelK B m c dub) ⟨(0 : Int)⟩ ⟨s, e⟩ =
      if s = 0 ∧ e ≠ 0 then .error .OperateWithInf else .ok (toGA toG (reprRound B m c 0 ⟨s, e⟩)) :=
  repr_round_is_model B m c dub 0 s e

/-- **`Context::sqr` as regenerated = `Model.Float.ctxSqr false`** -/
theorem context_sqr_is_model (B : Nat) (m : Mode) (c : Coarse) (dub dlb : Int → Nat) (p : Nat) (ls le : Int)
    (hl : (digitsI B ls : Int) ≤ usize_MAX) :
    Context_sqr (modelK2 B m c dub dlb) ⟨(p : Int)⟩ ⟨ls, le⟩ =
      if ls = 0 ∧ le ≠ 0 then .error .OperateWithInf
      else .ok (Approx.map (fun v => (⟨v, ⟨(p : Int)⟩⟩ : GluePrelude.FBig)) (toGA toG (ctxSqr false B m c p ⟨ls, le⟩))) := by
  unfold Context_sqr ctxSqr
  simp only [assert_finite, Repr_is_infinite, is_zero_int, eq_int, ne_int, Context_is_limited, lt_int, mul_int, two_mul_cast]
  by_cases h1 : ls = 0 ∧ le ≠ 0
  · simp [h1]
  have hg : (decide (ls = 0) && !decide (le = 0)) = false := by simpa using h1
  simp only [hg, h1, if_false, Bool.false_eq_true, modelK2_digits, modelK2_toFloatK, modelK_digits]
  unfold preShrink
  simp only [Model.Float.FRepr.digits, Context_new, gt_iff_lt]
  by_cases hp : p = 0
  · subst hp
    have ha : ¬ (usize_MAX < (digitsI B ls : Int)) := by omega
    simp [ha, modelK_repr_new, rr0, new_not_inf, toG, FBig_new]
  · have hp' : ¬ ((p : Int) = 0) := by omega
    simp only [hp', decide_false, Bool.not_false, if_true, Int.ofNat_lt, hp, ne_eq, not_false_eq_true, true_and]
    by_cases hA : 2 * p < digitsI B ls <;>
      simp only [hA, decide_true, decide_false, if_true, if_false, Bool.false_eq_true, repr_round_ref_is_model, h1,
        value_toGA, modelK_repr_new, repr_round_is_model, new_not_inf, toG, add_int, FBig_new, Int.two_mul]

/-- **`Context::cubic` as regenerated = `Model.Float.ctxCubic false`** -/
theorem context_cubic_is_model (B : Nat) (m : Mode) (c : Coarse) (dub dlb : Int → Nat) (p : Nat) (ls le : Int)
    (hl : (digitsI B ls : Int) ≤ usize_MAX) :
    Context_cubic (modelK2 B m c dub dlb) ⟨(p : Int)⟩ ⟨ls, le⟩ =
      if ls = 0 ∧ le ≠ 0 then .error .OperateWithInf
      else .ok (Approx.map (fun v => (⟨v, ⟨(p : Int)⟩⟩ : GluePrelude.FBig)) (toGA toG (ctxCubic false B m c p ⟨ls, le⟩))) := by
  unfold Context_cubic ctxCubic
  simp only [assert_finite, Repr_is_infinite, is_zero_int, eq_int, ne_int, Context_is_limited, lt_int, mul_int, three_mul_cast]
  by_cases h1 : ls = 0 ∧ le ≠ 0
  · simp [h1]
  have hg : (decide (ls = 0) && !decide (le = 0)) = false := by simpa using h1
  simp only [hg, h1, if_false, Bool.false_eq_true, modelK2_digits, modelK2_toFloatK, modelK_digits]
  unfold preShrink
  simp only [Model.Float.FRepr.digits, Context_new, gt_iff_lt]
  by_cases hp : p = 0
  · subst hp
    have ha : ¬ (usize_MAX < (digitsI B ls : Int)) := by omega
    simp [ha, modelK_repr_new, rr0, new_not_inf, toG, FBig_new]
  · have hp' : ¬ ((p : Int) = 0) := by omega
    simp only [hp', decide_false, Bool.not_false, if_true, Int.ofNat_lt, hp, ne_eq, not_false_eq_true, true_and]
    by_cases hA : 3 * p < digitsI B ls <;>
      simp only [hA, decide_true, decide_false, if_true, if_false, Bool.false_eq_true, repr_round_ref_is_model, h1,
        value_toGA, modelK_repr_new, repr_round_is_model, new_not_inf, toG, add_int, FBig_new]

/-- what the four operator forms of `FBig * FBig` return: the model's `opMul` at `Context::max` -/
def mulFormSpec (B : Nat) (m : Mode) (c : Coarse) (ls le : Int) (pl : Nat) (rs re : Int) (pr : Nat) :
    Except Panic GluePrelude.FBig :=
  if (ls = 0 ∧ le ≠ 0) ∨ (rs = 0 ∧ re ≠ 0) then .error .OperateWithInf
  else .ok ⟨toG (opMul B m c (Nat.max pl pr) ⟨ls, le⟩ ⟨rs, re⟩).1, ⟨((Nat.max pl pr : Nat) : Int)⟩⟩

theorem mul_ref_ref_is_model (B : Nat) (m : Mode) (c : Coarse) (dub dlb : Int → Nat) (ls le : Int) (pl : Nat) (rs re : Int)
    (pr : Nat) :
    FBig_mul_ref_ref (modelK2 B m c dub dlb) ⟨⟨ls, le⟩, ⟨(pl : Int)⟩⟩ ⟨⟨rs, re⟩, ⟨(pr : Int)⟩⟩ =
      mulFormSpec B m c ls le pl rs re pr := by
  unfold FBig_mul_ref_ref mulFormSpec opMul
  simp only [context_max_eq, assert_finite_operands, Repr_is_infinite, is_zero_int, eq_int, ne_int, mul_int, add_int,
    modelK2_toFloatK, modelK2_repr_new, repr_round_is_model, new_not_inf, if_false, FBig_new, value_toGA]
  by_cases h1 : ls = 0 ∧ le ≠ 0
  · simp [h1]
  by_cases h2 : rs = 0 ∧ re ≠ 0
  · simp [h2]
  have h12 : ¬ (ls = 0 ∧ le ≠ 0 ∨ rs = 0 ∧ re ≠ 0) := by intro h; cases h <;> contradiction
  have hg : (decide (ls = 0) && !decide (le = 0) || decide (rs = 0) && !decide (re = 0)) = false := by
    simpa using h12
  simp only [hg, h12, if_false, Bool.false_eq_true, toG, Int.mul_comm rs ls, Int.add_comm re le]
  simp only [modelK_repr_new, repr_round_is_model, new_not_inf, if_false, value_toGA, toG]


theorem natAbs_tmod_le (a b : Int) (hb : b ≠ 0) : (Int.tmod a b).natAbs ≤ b.natAbs := by
  have := Int.natAbs_tmod a b
  sorry

theorem repr_div_is_model (B : Nat) (hB : 2 ≤ B) (m : Mode) (c : Coarse) (dub dlb : Int → Nat) (p : Nat) (ls le rs re : Int) :
    Context_repr_div (modelK2 B m c dub dlb) ⟨(p : Int)⟩ ⟨ls, le⟩ ⟨rs, re⟩ =
      if (ls = 0 ∧ le ≠ 0) ∨ (rs = 0 ∧ re ≠ 0) then .error .OperateWithInf
      else match reprDiv B m p ⟨ls, le⟩ ⟨rs, re⟩ with
        | .error .unlimitedPrecision => .error .UnlimitedPrecision
        | .error .divideByZero => .error .DivideByZero
        | .error .rootNegative => .error .RootNegative
        | .ok r => .ok (toGA toG r) := by
  unfold Context_repr_div reprDiv
  simp only [assert_finite_operands, assert_limited_precision, Repr_is_infinite, is_zero_int, eq_int, ne_int, lt_int, sub_int, add_int,
    IBig_div_rem]
  by_cases h1 : ls = 0 ∧ le ≠ 0
  · simp [h1]
  by_cases h2 : rs = 0 ∧ re ≠ 0
  · simp [h2]
  have h12 : ¬ (ls = 0 ∧ le ≠ 0 ∨ rs = 0 ∧ re ≠ 0) := by intro h; cases h <;> contradiction
  have hg : (decide (ls = 0) && !decide (le = 0) || decide (rs = 0) && !decide (re = 0)) = false := by
    simpa using h12
  simp only [hg, h12, if_false, Bool.false_eq_true]
  by_cases hp : p = 0
  · simp [hp]
  have hp' : ¬ ((p : Int) = 0) := by omega
  simp only [hp, hp', decide_false, if_false, Bool.false_eq_true]
  by_cases hr : rs = 0
  · simp [hr]
  simp only [hr, if_false]
  trace_state
  sorry

end Dashu.Props.GenFloatArith
