import Dashu.Gen.FloatMul
import Dashu.Gen.FloatDiv
import Dashu.Props.GenFloatForms
set_option linter.unusedSimpArgs false
namespace Dashu.Props.GenFloatArith
open Dashu Dashu.Gen Dashu.GluePrelude Dashu.Proofs.Gen Dashu.Model.Float Dashu.Props.GenFloatOps Dashu.Props.GenFloatAdd
  Dashu.Props.GenFloatForms

/-- the kernel record of the hand model for `mul.rs` / `div.rs`: `modelK` plus the `digits_lb` oracle and the model's
    `roundRatio` -/
def modelK2 (B : Nat) (m : Mode) (c : Coarse) (dub dlb : Int → Nat) : FloatK2 Unit where
  toFloatK := modelK B m c dub
  digits_lb := fun r => (dlb r.significand : Int)
  round_ratio := fun q r d => roundRatio m q r d

theorem modelK2_toFloatK (B : Nat) (m : Mode) (c : Coarse) (dub dlb : Int → Nat) :
    (modelK2 B m c dub dlb).toFloatK = modelK B m c dub := rfl
theorem modelK2_digits (B : Nat) (m : Mode) (c : Coarse) (dub dlb : Int → Nat) (r : GluePrelude.FRepr) :
    (modelK2 B m c dub dlb).digits r = (digitsI B r.significand : Int) := rfl
theorem modelK2_repr_new (B : Nat) (m : Mode) (c : Coarse) (dub dlb : Int → Nat) (s e : Int) :
    (modelK2 B m c dub dlb).repr_new s e = ⟨(Model.Float.FRepr.new B s e).signif, (Model.Float.FRepr.new B s e).exp⟩ := rfl

theorem modelK_digits (B : Nat) (m : Mode) (c : Coarse) (dub : Int → Nat) (s e : Int) :
    (modelK B m c dub).digits ⟨s, e⟩ = (digitsI B s : Int) := rfl

theorem two_mul_cast (p : Nat) : (2 : Int) * (p : Int) = ((2 * p : Nat) : Int) := by omega
theorem three_mul_cast (p : Nat) : (3 : Int) * (p : Int) = ((3 * p : Nat) : Int) := by omega

theorem context_mul_is_model (B : Nat) (m : Mode) (c : Coarse) (dub dlb : Int → Nat) (p : Nat) (ls le rs re : Int)
    (hl : (digitsI B ls : Int) ≤ usize_MAX) (hr : (digitsI B rs : Int) ≤ usize_MAX) :
    Context_mul (modelK2 B m c dub dlb) ⟨(p : Int)⟩ ⟨ls, le⟩ ⟨rs, re⟩ =
      if (ls = 0 ∧ le ≠ 0) ∨ (rs = 0 ∧ re ≠ 0) then .error .OperateWithInf
      else .ok (Approx.map (fun v => (⟨v, ⟨(p : Int)⟩⟩ : GluePrelude.FBig))
        (toGA toG (ctxMul false B m c p ⟨ls, le⟩ ⟨rs, re⟩))) := by
  unfold Context_mul ctxMul
  simp only [assert_finite_operands, Repr_is_infinite, is_zero_int, eq_int, ne_int, Context_is_limited, lt_int, mul_int,
    two_mul_cast]
  by_cases h1 : ls = 0 ∧ le ≠ 0
  · simp [h1]
  by_cases h2 : rs = 0 ∧ re ≠ 0
  · simp [h2]
  have h12 : ¬ (ls = 0 ∧ le ≠ 0 ∨ rs = 0 ∧ re ≠ 0) := by intro h; cases h <;> contradiction
  have hg : (decide (ls = 0) && !decide (le = 0) || decide (rs = 0) && !decide (re = 0)) = false := by
    simpa using h12
  simp only [hg, h12, if_false, Bool.false_eq_true, modelK2_digits, modelK2_toFloatK, modelK_digits]
  unfold preShrink
  simp only [Model.Float.FRepr.digits, Context_new, gt_iff_lt]
  by_cases hp : p = 0
  · subst hp
    have ha : ¬ (usize_MAX < (digitsI B ls : Int)) := by omega
    have hb : ¬ (usize_MAX < (digitsI B rs : Int)) := by omega
    have rr : ∀ s e : Int, Context_repr_round (modelK B m c dub) ⟨(0 : Int)⟩ ⟨s, e⟩ =
        if s = 0 ∧ e ≠ 0 then .error .OperateWithInf else .ok (toGA toG (reprRound B m c 0 ⟨s, e⟩)) :=
      fun s e => repr_round_is_model B m c dub 0 s e
    simp [ha, hb, modelK_repr_new, rr, new_not_inf, toG, FBig_new]
  · have hp' : ¬ ((p : Int) = 0) := by omega
    simp only [hp', decide_false, Bool.not_false, if_true, Int.ofNat_lt, hp, ne_eq, not_false_eq_true, true_and]
    by_cases hA : 2 * p < digitsI B ls <;> by_cases hB : 2 * p < digitsI B rs <;>
      simp only [hA, hB, decide_true, decide_false, if_true, if_false, Bool.false_eq_true, repr_round_ref_is_model, h1, h2,
        value_toGA, modelK_repr_new, repr_round_is_model, new_not_inf, toG, add_int, FBig_new]

end Dashu.Props.GenFloatArith
