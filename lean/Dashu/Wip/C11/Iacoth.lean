import Dashu.Proofs.Trans.SeriesBound
/-
  C11 (Wip) — step bound of the loop of `Context::iacoth` (all terms positive): same argument as for the Maclaurin loop,
  with a lower bound `B^L` on the sum, the divisor `convert_int(k)` and the strict stop test `increase < sum.sub_ulp()`.
-/
namespace Dashu.Proofs.Trans.SeriesBound
open Dashu.Model.Float Dashu.Model.Trans

/-- `sum += increase` keeps a sum `≥ B^L` at or above `B^L` (`fAddSub_keeps` is the case `L = 0`) -/
theorem fAddSub_keeps_pow (E : Env) (hB : 2 ≤ E.B) (hc : CoarseSound E.c) (hdub : DubSound E.B E.est.dub) (x y : FBigM)
    (hp : 1 ≤ ctxMaxP x.prec y.prec) (L : Int) (hx : bpowQ E.B L ≤ val E.B x) (hy : 0 < y.repr.signif) :
    bpowQ E.B L ≤ val E.B (fAddSub E x y 1) := by
  have hB0 : 0 < E.B := by omega
  have hLpos := bpowQ_pos E.B hB0 L
  have hxs : 0 < x.repr.signif := by
    by_contra hcon
    have h1 : (x.repr.signif : ℚ) ≤ 0 := by exact_mod_cast (by omega : x.repr.signif ≤ 0)
    have := bpowQ_pos E.B hB0 x.repr.exp
    simp only [val, FRepr.toRat] at hx
    nlinarith
  have hyq : (0 : ℚ) < y.repr.toRat E.B := by
    unfold FRepr.toRat
    exact mul_pos (by exact_mod_cast hy) (bpowQ_pos E.B hB0 _)
  have hxz : x.repr.isZero = false := by
    unfold FRepr.isZero
    have : (x.repr.signif == 0) = false := by simp; omega
    simp [this]
  have hyz : y.repr.isZero = false := by
    unfold FRepr.isZero
    have : (y.repr.signif == 0) = false := by simp; omega
    simp [this]
  simp only [val, fAddSub, hxz, hyz, Bool.false_eq_true, if_false, one_mul]
  simp only [val] at hx
  by_cases heq : x.repr.exp = y.repr.exp
  · rw [if_pos heq]
    have hcon := reprRound_contract E.B hB E.m E.c hc _ hp _
      (FRepr.new_normalized E.B hB (x.repr.signif + y.repr.signif) x.repr.exp)
    rw [FRepr.new_value E.B hB0] at hcon
    apply contract_ge_pow hB hp hcon
    have : ((x.repr.signif + y.repr.signif : Int) : ℚ) * bpowQ E.B x.repr.exp =
        x.repr.toRat E.B + (y.repr.signif : ℚ) * bpowQ E.B x.repr.exp := by
      unfold FRepr.toRat; push_cast; ring
    rw [this]
    have : (0 : ℚ) ≤ (y.repr.signif : ℚ) * bpowQ E.B x.repr.exp :=
      mul_nonneg (by exact_mod_cast hy.le) (bpowQ_pos E.B hB0 _).le
    linarith
  · rw [if_neg heq]
    by_cases hgt : x.repr.exp > y.repr.exp
    · rw [if_pos hgt]
      obtain ⟨X, hcon, hX, _⟩ := addLargeSmall_pos E.B hB E.m E.c hc E.est.dub _ hp x.repr y.repr hxs hy hgt
      apply contract_ge_pow hB hp hcon
      linarith
    · rw [if_neg hgt]
      have hlt : x.repr.exp < y.repr.exp := by omega
      obtain ⟨X, hcon, hX, hXeq⟩ := addLargeSmall_pos E.B hB E.m E.c hc E.est.dub _ hp ⟨y.repr.signif, y.repr.exp⟩ x.repr
        hy hxs hlt
      apply contract_ge_pow hB hp hcon
      by_cases hfar : E.est.dub x.repr.signif + 1 < ((⟨y.repr.signif, y.repr.exp⟩ : FRepr).exp - x.repr.exp).toNat ∧
          E.est.dub x.repr.signif + 1 + ctxMaxP x.prec y.prec <
            (⟨y.repr.signif, y.repr.exp⟩ : FRepr).digits E.B + ((⟨y.repr.signif, y.repr.exp⟩ : FRepr).exp - x.repr.exp).toNat
      · have hd := hdub x.repr.signif
        have hlt2 := toRat_abs_lt E.B hB x.repr
        have hle : bpowQ E.B (x.repr.exp + (x.repr.digits E.B : Int)) ≤ bpowQ E.B y.repr.exp := by
          apply bpowQ_mono E.B hB
          have := hfar.1
          simp only at this
          unfold FRepr.digits
          omega
        have hxa : x.repr.toRat E.B ≤ |x.repr.toRat E.B| := le_abs_self _
        have hyv : bpowQ E.B y.repr.exp ≤ (⟨y.repr.signif, y.repr.exp⟩ : FRepr).toRat E.B := by
          unfold FRepr.toRat
          simp only
          have : (1 : ℚ) ≤ (y.repr.signif : ℚ) := by exact_mod_cast hy
          have := bpowQ_pos E.B hB0 y.repr.exp
          nlinarith
        linarith
      · rw [hXeq hfar]
        have : (⟨y.repr.signif, y.repr.exp⟩ : FRepr).toRat E.B = y.repr.toRat E.B := rfl
        rw [this]; linarith

/-- value order decides `reprCmp` -/
theorem reprCmp_lt_of_val_lt (B : Nat) (hB : 2 ≤ B) (a b : FRepr) (h : a.toRat B < b.toRat B) : reprCmp B a b = .lt := by
  have hB0 : 0 < B := by omega
  unfold reprCmp
  simp only
  have hm1 : min a.exp b.exp ≤ a.exp := min_le_left _ _
  have hm2 : min a.exp b.exp ≤ b.exp := min_le_right _ _
  generalize min a.exp b.exp = em at *
  have s1 := bpowQ_split B hB em a.exp hm1
  have s2 := bpowQ_split B hB em b.exp hm2
  have hpe := bpowQ_pos B hB0 em
  rw [compare_lt_iff_lt]
  unfold FRepr.toRat at h
  rw [s1, s2] at h
  have hq : ((a.signif * ((B ^ (a.exp - em).toNat : Nat) : Int) : Int) : ℚ) <
      ((b.signif * ((B ^ (b.exp - em).toNat : Nat) : Int) : Int) : ℚ) := by
    push_cast at h ⊢
    by_contra hc
    have hge := not_lt.mp hc
    have := mul_le_mul_of_nonneg_right hge hpe.le
    nlinarith
  exact_mod_cast hq

/-- `convert_int(k)` at `w ≥ 1` digits is at least `1` for `k ≥ 1` -/
theorem fConvertInt_ge_one (E : Env) (hB : 2 ≤ E.B) (hc : CoarseSound E.c) (w : Nat) (hw : 1 ≤ w) (k : Int) (hk : 1 ≤ k) :
    1 ≤ val E.B (fConvertInt E w k) := by
  have hB0 : 0 < E.B := by omega
  have hcon := reprRound_contract E.B hB E.m E.c hc w hw _ (FRepr.new_normalized E.B hB k 0)
  rw [FRepr.new_value E.B hB0, bpowQ_zero] at hcon
  have h1 : bpowQ E.B 0 ≤ (k : ℚ) * 1 := by
    rw [bpowQ_zero]
    have : (1 : ℚ) ≤ (k : ℚ) := by exact_mod_cast hk
    linarith
  have := contract_ge_pow hB hw hcon 0 h1
  rw [bpowQ_zero] at this
  simpa [val, fConvertInt] using this

/-- `pow / convert_int(k)`: the quotient does not exceed a power-of-base bound of `pow` -/
theorem fDiv_conv_bound (E : Env) (hB : 2 ≤ E.B) (hc : CoarseSound E.c) (x : FBigM) (w : Nat) (hw : 1 ≤ w) (k : Int)
    (hk : 1 ≤ k) (a : Int) (hx0 : 0 ≤ val E.B x) (hxa : val E.B x ≤ bpowQ E.B a) :
    ∃ inc, fDiv E x (fConvertInt E w k) = .ok inc ∧ inc.prec = ctxMaxP x.prec w ∧
      0 ≤ val E.B inc ∧ val E.B inc ≤ bpowQ E.B a := by
  have hB0 : 0 < E.B := by omega
  have hc1 := fConvertInt_ge_one E hB hc w hw k hk
  have hcs : (fConvertInt E w k).repr.signif ≠ 0 := by
    intro h
    simp only [val, FRepr.toRat, h] at hc1
    norm_num at hc1
  have hp : 1 ≤ ctxMaxP x.prec (fConvertInt E w k).prec := le_trans hw (ctxMaxP_ge_right _ _)
  obtain ⟨r, hr, hcon⟩ := reprDiv_contract E.B hB E.m _ hp x.repr (fConvertInt E w k).repr hcs
  refine ⟨⟨r.1, ctxMaxP x.prec (fConvertInt E w k).prec⟩, by simp only [fDiv, hr], rfl, ?_⟩
  have hcpos : (0 : ℚ) < (fConvertInt E w k).repr.toRat E.B := lt_of_lt_of_le one_pos hc1
  have hq0 : 0 ≤ x.repr.toRat E.B / (fConvertInt E w k).repr.toRat E.B := div_nonneg hx0 hcpos.le
  have hq : x.repr.toRat E.B / (fConvertInt E w k).repr.toRat E.B ≤ bpowQ E.B a :=
    le_trans (div_le_self hx0 hc1) hxa
  exact contract_le_pow hB hp hcon hq0 _ hq

/-- `sum.sub_ulp()` of a sum `≥ B^L` is at least `B^(L − cS − precision)` -/
theorem subUlp_ge_pow (E : Env) (hB : 2 ≤ E.B) (cS : Nat) (hd : DlbTight E.B E.est.dlb cS) (sm : FBigM) (L : Int)
    (h1 : bpowQ E.B L ≤ val E.B sm) : L - (cS : Int) - (sm.prec : Int) ≤ (fSubUlp E sm).exp := by
  have hlt := toRat_abs_lt E.B hB sm.repr
  have h0 : bpowQ E.B L < bpowQ E.B (sm.repr.exp + (sm.repr.digits E.B : Int)) := by
    have : val E.B sm ≤ |sm.repr.toRat E.B| := le_abs_self _
    exact lt_of_le_of_lt (le_trans h1 this) hlt
  have hT := bpowQ_lt_bpowQ E.B hB _ _ h0
  have := hd sm.repr.signif
  unfold FRepr.digits at hT
  simp only [fSubUlp]
  omega

/-- **Step bound of the loop of `Context::iacoth`** (`pow *= inv2; increase = pow / k; if increase < sum.sub_ulp() return;
    sum += increase; k += 2`) with `0 ≤ inv2 ≤ B^(−u)` held at `w ≥ 1` digits: from a state `0 ≤ pow ≤ B^b`, `sum ≥ B^L`, both
    at precision `w`, the loop returns a value within any fuel `≥ 1` with `u·fuel > b − L + cS + w`, and the last index is
    below `k + 2·fuel`. -/
theorem iacothLoop_bound (E : Env) (hB : 2 ≤ E.B) (hc : CoarseSound E.c) (hdub : DubSound E.B E.est.dub) (cS : Nat)
    (hd : DlbTight E.B E.est.dlb cS) (inv2 : FBigM) (w u : Nat) (hw : 1 ≤ w) (hip : inv2.prec = w)
    (hi0 : 0 ≤ val E.B inv2) (hiu : val E.B inv2 ≤ bpowQ E.B (-(u : Int))) (L : Int) :
    ∀ (fuel : Nat) (pw sm : FBigM) (k : Nat) (b : Int),
      pw.prec = w → 0 ≤ val E.B pw → val E.B pw ≤ bpowQ E.B b → bpowQ E.B L ≤ val E.B sm → sm.prec = w → 1 ≤ k →
      1 ≤ fuel → b - L + (cS : Int) + (w : Int) < (u : Int) * (fuel : Int) →
      ∃ res, iacothLoop E w inv2 fuel pw sm k = .ok (some res) ∧ k ≤ res.2 ∧ res.2 < k + 2 * fuel := by
  have hB0 : 0 < E.B := by omega
  intro fuel
  induction fuel with
  | zero => intro pw sm k b _ _ _ _ _ _ h _; omega
  | succ fuel ih =>
    intro pw sm k b hpp hp0 hpb hsL hsp hk _ hfuel
    rw [iacothLoop]
    try dsimp only
    have hmp : 1 ≤ ctxMaxP pw.prec inv2.prec := by rw [hpp, hip, ctxMaxP_self]; exact hw
    obtain ⟨hm0, hmu⟩ := fMul_bound E hB hc pw inv2 hmp _ _ hp0 hpb hi0 hiu
    have hmprec : (fMul E pw inv2).prec = w := by simp only [fMul]; rw [hpp, hip, ctxMaxP_self]
    have hk1 : (1 : Int) ≤ (k : Int) := by exact_mod_cast hk
    obtain ⟨inc, hdiv, hincp, hinc0, hincu⟩ := fDiv_conv_bound E hB hc (fMul E pw inv2) w hw (k : Int) hk1 _ hm0 hmu
    rw [hdiv]
    try dsimp only
    have hincw : inc.prec = w := by rw [hincp, hmprec, ctxMaxP_self]
    by_cases hstop : reprCmp E.B inc.repr (fSubUlp E sm) = .lt
    · rw [if_pos hstop]
      exact ⟨(sm, k), rfl, Nat.le_refl _, by show k < k + 2 * (fuel + 1); omega⟩
    · rw [if_neg hstop]
      have hthr := subUlp_ge_pow E hB cS hd sm L hsL
      rw [hsp] at hthr
      have hthrv : (fSubUlp E sm).toRat E.B = bpowQ E.B (fSubUlp E sm).exp := by
        simp only [fSubUlp, FRepr.toRat]; norm_num
      have hnot : ¬ (b - (u : Int) < L - (cS : Int) - (w : Int)) := by
        intro hlt
        apply hstop
        apply reprCmp_lt_of_val_lt E.B hB
        rw [hthrv]
        have h1 : bpowQ E.B (b + -(u : Int)) < bpowQ E.B (L - (cS : Int) - (w : Int)) := by
          rw [bpowQ_eq_zpow, bpowQ_eq_zpow]
          have h1' : (1 : ℚ) < (E.B : ℚ) := by exact_mod_cast (by omega : 1 < E.B)
          exact zpow_lt_zpow_right₀ h1' (by omega)
        have h2 := bpowQ_mono E.B hB _ _ hthr
        exact lt_of_le_of_lt hincu (lt_of_lt_of_le h1 h2)
      have hsig0 := signif_nonneg_of_val E.B hB inc.repr hinc0
      have hsigpos : 0 < inc.repr.signif := by
        by_contra hc0
        have hz : inc.repr.signif = 0 := by omega
        apply hstop
        apply reprCmp_lt_of_val_lt E.B hB
        rw [hthrv]
        unfold FRepr.toRat
        rw [hz]
        simp only [Int.cast_zero, zero_mul]
        exact bpowQ_pos E.B hB0 _
      have hpinc : 1 ≤ ctxMaxP sm.prec inc.prec := by rw [hsp, hincw, ctxMaxP_self]; exact hw
      have hsm' : bpowQ E.B L ≤ val E.B (fAddSub E sm inc 1) := fAddSub_keeps_pow E hB hc hdub sm inc hpinc L hsL hsigpos
      have hprec' : (fAddSub E sm inc 1).prec = w := by simp only [fAddSub]; rw [hsp, hincw, ctxMaxP_self]
      have hfuel1 : 1 ≤ fuel := by
        by_contra hc0
        have : fuel = 0 := by omega
        subst this
        push_cast at hfuel
        omega
      have hfuel' : (b + -(u : Int)) - L + (cS : Int) + (w : Int) < (u : Int) * (fuel : Int) := by
        push_cast at hfuel
        have : (u : Int) * ((fuel : Int) + 1) = (u : Int) * (fuel : Int) + (u : Int) := by ring
        omega
      obtain ⟨res, hres, hk1', hk2⟩ := ih (fMul E pw inv2) (fAddSub E sm inc 1) (k + 2) (b + -(u : Int)) hmprec hm0 hmu
        hsm' hprec' (by omega) hfuel1 hfuel'
      exact ⟨res, hres, by omega, by omega⟩

end Dashu.Proofs.Trans.SeriesBound
