import Dashu.Model.NT.Zimmermann
import Dashu.Model.NT.PrimRoot
open Dashu.Model Dashu.Model.NT
def qtopAt (n : Nat) (a : Nat) : Bool :=
  let split := n / 2; let h := n - split
  let B := 2 ^ (64 * split)
  let (s1, r1, t) := sqrtRemRec 64 (sqrtRemDwordM 64) n h (a / (B * B))
  (kDiv B (2 ^ (64 * split - 1)) (2 ^ (64 * h)) s1 r1 t (a / B % B)).2.1
#eval [3,4,5,6,9].map fun n => let h := n - n/2; let t := 2^(64*h-1) + 12345; qtopAt n ((t*t+2*t) * 2^(128*(n/2)) + 999)
-- 42 path: q0 = B
#eval let t := 2^63 + 999; let a := (t*t+2*t) * 2^128 + 5 * 2^64 + 7; (sqrtRem42 64 (sqrtRemDwordM 64) a, sqrtRemKernelFrontier a)
