import Dashu.Model.NT.PrimRoot
open Dashu.Model Dashu.Model.NT
def okS (bits x : Nat) : Bool :=
  match sqrtRemPrimBits bits x with
  | some (s, r) => s*s ≤ x && x < (s+1)*(s+1) && s*s + r == x
  | none => false
def okC (bits x : Nat) : Bool :=
  match cbrtRemPrimBits bits x with
  | some (s, r) => s^3 ≤ x && x < (s+1)^3 && s^3 + r == x
  | none => false
#eval (List.range 256).all (okS 8) && (List.range 256).all (okC 8)
#eval (List.range 65536).all (okS 16)
#eval (List.range 65536).all (okC 16)
def lcg (x : Nat) : Nat := (x * 6364136223846793005 + 1442695040888963407) % 2^64
def rnds (seed cnt bits : Nat) : List Nat := Id.run do
  let mut x := seed; let mut out := []
  for i in [0:cnt] do
    x := lcg x; let y := lcg (x + 12345)
    let v := (x * 2^64 + y) % 2^bits
    out := (v >>> (i % bits)) :: out
  return out
#eval (rnds 1 20000 32).all (okS 32) && (rnds 2 20000 32).all (okC 32)
#eval (rnds 3 20000 64).all (okS 64) && (rnds 4 20000 64).all (okC 64)
#eval (rnds 5 20000 128).all (okS 128) && (rnds 6 20000 128).all (okC 128)
#eval [32,64,128].all fun b => [0,1,2,3,2^b-1,2^b-2,2^(b-1),2^(b-1)-1,2^(b-2),2^(b-2)-1, 2^(b-3), 2^(b-3) - 1].all fun x => okS b x && okC b x
#eval (List.range 3000).all fun i => let k := 2^32 - 1 - i; okS 64 (k*k) && okS 64 (k*k-1) && okS 128 ((k*2^32+i)^2 - 1) && okS 128 ((k*2^32+i)^2)
#eval (List.range 3000).all fun i => let k := 2^21 - 1 - i; okC 64 (k^3) && okC 64 (k^3-1) && okC 128 ((k*2^21+i)^3 - 1) && okC 128 ((k*2^21+i)^3)
#eval packBytes RSQRT_TAB
