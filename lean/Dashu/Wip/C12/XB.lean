import Dashu.Proofs.NT.LehmerBuf
import Dashu.Proofs.NT.GcdExt
namespace Dashu.Model.NT
open Dashu.Model

/-- cofactor bounds of the Euclid loop `unchecked_gcd_ext`: with the alternating-sign invariant
    `σ·(lastS·r − s·lastR) = B`, `σ·(t·lastR − lastT·r) = A` the returned `(g, s, t)` has `|s·g| ≤ B`, `|t·g| ≤ A` -/
theorem xgcdLoop_bound (A B : Int) :
    ∀ (fuel lastR r : Nat) (lastS s lastT t σ : Int), (σ = 1 ∨ σ = -1) → r ≤ lastR → 0 < r →
      0 ≤ σ * lastS → σ * s ≤ 0 → σ * lastT ≤ 0 → 0 ≤ σ * t →
      σ * (lastS * r - s * lastR) = B → σ * (t * lastR - lastT * r) = A →
      let res := xgcdLoop fuel lastR r lastS s lastT t
      (-B ≤ res.2.1 * res.1 ∧ res.2.1 * res.1 ≤ B) ∧ (-A ≤ res.2.2 * res.1 ∧ res.2.2 * res.1 ≤ A) := by
  intro fuel
  induction fuel with
  | zero =>
    intro lastR r lastS s lastT t σ hσ hle hr h1 h2 h3 h4 hB hA
    simp only [xgcdLoop]
    have hd : (0 : Int) ≤ (lastR : Int) - r := by omega
    have hr0 : (0 : Int) ≤ (r : Int) := by omega
    have p1 := mul_nonneg h1 hr0
    have p2 := mul_nonneg (neg_nonneg.2 h2) hd
    have p3 := mul_nonneg (neg_nonneg.2 h2) hr0
    have p4 := mul_nonneg (neg_nonneg.2 h3) hr0
    have p5 := mul_nonneg h4 hd
    have p6 := mul_nonneg h4 hr0
    rcases hσ with rfl | rfl <;> refine ⟨⟨?_, ?_⟩, ⟨?_, ?_⟩⟩ <;> nlinarith
  | succ n ih =>
    intro lastR r lastS s lastT t σ hσ hle hr h1 h2 h3 h4 hB hA
    unfold xgcdLoop
    simp only []
    have hdm := Nat.div_add_mod lastR r
    have hmod := Nat.mod_lt lastR hr
    have hq1 : 1 ≤ lastR / r := by rw [Nat.le_div_iff_mul_le hr]; omega
    have hnew : lastR - lastR / r * r = lastR % r := by
      rw [Nat.mul_comm]; omega
    rw [hnew]
    have hr0 : (0 : Int) ≤ (r : Int) := by omega
    have hq0 : (1 : Int) ≤ ((lastR / r : Nat) : Int) := by exact_mod_cast hq1
    split
    · rename_i h0
      -- lastR = q·r
      have hL : (lastR : Int) = ((lastR / r : Nat) : Int) * r := by
        have : lastR = r * (lastR / r) := by omega
        conv => lhs; rw [this]
        push_cast; ring
      generalize ((lastR / r : Nat) : Int) = q at *
      have p1 := mul_nonneg h1 hr0
      have p3 := mul_nonneg (neg_nonneg.2 h2) hr0
      have p3' := mul_nonneg p3 (show (0 : Int) ≤ q - 1 by omega)
      have p4 := mul_nonneg (neg_nonneg.2 h3) hr0
      have p6 := mul_nonneg h4 hr0
      have p6' := mul_nonneg p6 (show (0 : Int) ≤ q - 1 by omega)
      rw [hL] at hB hA
      rcases hσ with rfl | rfl <;> refine ⟨⟨?_, ?_⟩, ⟨?_, ?_⟩⟩ <;> nlinarith
    · rename_i hne
      have hL : (lastR : Int) = ((lastR / r : Nat) : Int) * r + ((lastR % r : Nat) : Int) := by
        have : lastR = r * (lastR / r) + lastR % r := by omega
        conv => lhs; rw [this]
        push_cast; ring
      have hq : (0 : Int) ≤ ((lastR / r : Nat) : Int) := by omega
      apply ih (lastR % r) r s (lastS - ((lastR / r : Nat) : Int) * s) t (lastT - ((lastR / r : Nat) : Int) * t) (-σ)
        (by rcases hσ with rfl | rfl <;> simp) (by omega) (by omega)
      · linarith
      · have := mul_nonneg hq (neg_nonneg.2 h2); nlinarith
      · linarith
      · have := mul_nonneg hq h4; nlinarith
      · rw [← hB, hL]; ring
      · rw [← hA, hL]; ring

end Dashu.Model.NT
