import Mathlib.Tactic.Zify
#check @Nat.or_comm
#check @Nat.lor_comm
#check @Nat.two_pow_add_eq_or_of_lt
#check @Nat.and_one_is_mod
