import Dashu.Proofs.NT.PrimRoot
open Dashu.Model.NT
theorem t_s : allFrom (sqrtOkAt 16) 1024 40000 = true := by decide +kernel
theorem t_c : allFrom (cbrtOkAt 16) 1024 40000 = true := by decide +kernel
