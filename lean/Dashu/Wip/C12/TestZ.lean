import Dashu.Model.NT.Zimmermann
open Dashu.Model Dashu.Model.NT

def primS (x : Nat) : Nat × Nat := let s := iroot x 2; (s, x - s*s)

def okK (W n a : Nat) : Bool :=
  let (s, r, c) := sqrtRemRec W primS n n a
  let R := r + (if c then 2^(W*n) else 0)
  s*s + R == a && R ≤ 2*s && r < 2^(W*n)

-- exhaustive W=2, n=2 (a in [2^6, 2^8)), n=3 (a in [2^10,2^12)), n=4: [2^14, 2^16), n=5 [2^18,2^20)
#eval (List.range (2^8 - 2^6)).all fun i => okK 2 2 (2^6 + i)
#eval (List.range (2^12 - 2^10)).all fun i => okK 2 3 (2^10 + i)
#eval (List.range (2^16 - 2^14)).all fun i => okK 2 4 (2^14 + i)
#eval (List.range (2^20 - 2^18)).all fun i => okK 2 5 (2^18 + i)
#eval (List.range (2^16 - 2^14)).all fun i => okK 4 2 (2^14 + i)
#eval (List.range (2^18)).all fun i => okK 4 3 (2^22 + i * 47 + 5)
#eval (List.range (2^18)).all fun i => okK 4 3 (2^24 - 1 - i)
-- W = 64 pseudo-random
def lcg (x : Nat) : Nat := (x * 6364136223846793005 + 1442695040888963407) % 2^64
def rnd (seed words : Nat) : Nat := Id.run do
  let mut x := seed; let mut v := 0
  for _ in [0:words] do
    x := lcg x; v := v * 2^64 + x
  return v
#eval (List.range 300).all fun i => let n := 2 + i % 9; let a := rnd (i+1) (2*n) ||| 2^(128*n - 2); okK 64 n a
#eval (List.range 300).all fun i => let n := 2 + i % 9; let s := (rnd (i+7) n ||| 2^(64*n - 1)); okK 64 n (s*s - 1) && okK 64 n (s*s) && okK 64 n (s*s+1)
#eval okK 64 2 (2^256-1) && okK 64 3 (2^384-1) && okK 64 4 (2^512-1) && okK 64 5 (2^640-1)
