import Dashu.Props.C10Dlb
/- round 8 (C10): developed here, WIRED into `Dashu/Props/C10Dlb.lean` (+ `Audit/C10Dlb.lean`); nothing is left in Wip. -/
