import Dashu.Props.C10Libm
/- round 7 (C10), second item: developed here, WIRED into `Dashu/Props/C10Libm.lean` (+ `Audit/C10Libm.lean`); nothing is left in Wip. -/
