import Dashu.Proofs.Text.BytesDecode
import Dashu.Proofs.Text.ParsePow2
/-
  C07 (work in progress → Props when green) — the UNSIGNED big-endian byte functions of convert.rs mirrored as
  the separate code they are (`words_to_be_bytes`, `TypedReprRef::to_be_bytes`, `word/dword_from_be_bytes_partial`,
  `Repr::from_be_bytes`, `from_be_bytes_large` with `rchunks_exact` + `remainder`), and proved equal to the
  mirror-image model (`toBeBytes`, `fromBeBytes` of Model/Text/Bytes.lean) the byte theorems are about.
-/
namespace Dashu.Model.Text
open Dashu.Model (val)

/-- `Word::to_be_bytes` (`W/8` bytes, most significant first) -/
def wordBeBytes (W w : Nat) : List Nat := digitsPad 256 (W / 8) w

/-- `words_to_be_bytes::<FLIP>` -/
def wordsToBeBytes (W : Nat) (flip : Bool) (words : List Nat) : List Nat :=
  let n := words.length
  let last := words.getLastD 0
  let skip := lzWord W last / 8
  let f := fun w => if flip then notWord W w else w
  (wordBeBytes W (f last)).drop skip ++ (words.take (n - 1)).reverse.flatMap (fun w => wordBeBytes W (f w))

/-- `TypedReprRef::to_be_bytes` on the magnitude `n` -/
def toBeBytesM (W n : Nat) : List Nat :=
  if n < 2 ^ (2 * W) then
    let skip := lzWord (2 * W) n / 8
    (wordBeBytes (2 * W) n).drop skip
  else wordsToBeBytes W false (wordsOf W n)

/-- `word_from_be_bytes_partial::<ONE_PAD>` / `dword_from_be_bytes_partial` / `Word::from_be_bytes`:
    `word_bytes[N - bytes.len()..].copy_from_slice(bytes)`, the missing HIGH bytes are the padding -/
def wordFromBePartial (nbytes : Nat) (onePad : Bool) (bs : List Nat) : Nat :=
  ofDigits 256 (List.replicate (nbytes - bs.length) (if onePad then 255 else 0) ++ bs)

/-- `bytes.rchunks_exact(k)` followed by `.remainder()`: groups of `k` taken from the END, the last
    group (the front of the slice) may be shorter -/
def rchunksExact (k : Nat) : Nat → List Nat → List (List Nat)
  | 0, _ => []
  | fuel + 1, l =>
    if k = 0 ∨ l = [] then []
    else if l.length ≤ k then [l]
    else l.drop (l.length - k) :: rchunksExact k fuel (l.take (l.length - k))

/-- `Repr::from_be_bytes_large::<NEG>`: the words pushed to the buffer (before `from_buffer`) -/
def fromBeBytesLarge (W : Nat) (neg : Bool) (bytes : List Nat) : List Nat :=
  let ws := (rchunksExact (W / 8) bytes.length bytes).map (fun g =>
    let w := wordFromBePartial (W / 8) neg g
    if neg then notWord W w else w)
  if neg then (Dashu.Model.addOne W ws).1 else ws

/-- `Repr::from_be_bytes` (value) -/
def fromBeBytesM (W : Nat) (bytes : List Nat) : Nat :=
  if bytes.length ≤ 2 * W / 8 then wordFromBePartial (2 * W / 8) false bytes
  else val W (fromBeBytesLarge W false bytes)

/-- `Repr::from_signed_be_bytes` (value): the sign is read from the FIRST byte -/
def fromSignedBeBytesM (W : Nat) (bytes : List Nat) : Int :=
  match bytes.head? with
  | none => 0
  | some top =>
    if top < 128 then (fromBeBytesM W bytes : Int)
    else if bytes.length ≤ 2 * W / 8 then
      Int.negOfNat ((notWord (2 * W) (wordFromBePartial (2 * W / 8) true bytes) + 1) % 2 ^ (2 * W))
    else Int.negOfNat (val W (fromBeBytesLarge W true bytes))

-- ---------------------------------------------------------------- = the mirror-image model

theorem reverse_take_eq_drop (l : List Nat) (s : Nat) :
    (l.take (l.length - s)).reverse = l.reverse.drop s := by
  by_cases hs : s ≤ l.length
  · rw [List.reverse_take, Nat.sub_sub_self hs]
  · have h1 : l.length - s = 0 := by omega
    rw [h1, List.take_zero, List.reverse_nil, List.drop_eq_nil_of_le (by simp; omega)]

theorem reverse_flatMap' (l : List Nat) (g : Nat → List Nat) :
    (l.flatMap g).reverse = l.reverse.flatMap (fun w => (g w).reverse) := by
  induction l with
  | nil => rfl
  | cons a l ih => simp [List.flatMap_cons, ih]

theorem wordBeBytes_eq (W w : Nat) : wordBeBytes W w = (wordLeBytes W w).reverse := rfl

theorem wordLeBytes_length (W w : Nat) : (wordLeBytes W w).length = W / 8 := digitsPadLE_length _ _ _

theorem wordsToBeBytes_eq (W : Nat) (flip : Bool) (words : List Nat) :
    wordsToBeBytes W flip words = (wordsToLeBytes W flip words).reverse := by
  unfold wordsToBeBytes wordsToLeBytes
  simp only [List.reverse_append, reverse_flatMap', wordBeBytes_eq]
  congr 1
  have := reverse_take_eq_drop (wordLeBytes W (if flip then notWord W (words.getLastD 0) else words.getLastD 0))
    (lzWord W (words.getLastD 0) / 8)
  rw [wordLeBytes_length] at this
  exact this.symm

/-- the mirrored big-endian encoder equals the mirror-image model -/
theorem toBeBytesM_eq (W n : Nat) : toBeBytesM W n = toBeBytes W n := by
  unfold toBeBytesM toBeBytes toLeBytes
  by_cases h : n < 2 ^ (2 * W)
  · simp only [h, if_true]
    have := reverse_take_eq_drop (wordLeBytes (2 * W) n) (lzWord (2 * W) n / 8)
    rw [wordLeBytes_length] at this
    rw [wordBeBytes_eq]; exact this.symm
  · simp only [h, if_false]; exact wordsToBeBytes_eq W false _

theorem wordFromBePartial_eq (nbytes : Nat) (onePad : Bool) (bs : List Nat) :
    wordFromBePartial nbytes onePad bs = wordFromLePartial nbytes onePad bs.reverse := by
  unfold wordFromBePartial wordFromLePartial
  rw [← ofDigitsLE_reverse, List.reverse_append, List.reverse_replicate, List.length_reverse]

theorem chunksOf_cons_step (k : Nat) (l : List Nat) (hk : k ≠ 0) (hl : l ≠ []) :
    chunksOf k l = l.take k :: chunksOf k (l.drop k) := by
  rw [chunksOf]; simp [hk, hl]

theorem chunksOf_nil' (k : Nat) : chunksOf k [] = [] := by rw [chunksOf]; simp

/-- `rchunks_exact` + `remainder` is `chunks` of the reversed slice, each group reversed -/
theorem rchunksExact_eq (k : Nat) : ∀ (fuel : Nat) (l : List Nat), l.length ≤ fuel →
    rchunksExact k fuel l = (chunksOf k l.reverse).map List.reverse := by
  intro fuel
  induction fuel with
  | zero =>
    intro l hl
    have : l = [] := List.length_eq_zero_iff.mp (by omega)
    subst this; simp [rchunksExact, chunksOf_nil']
  | succ fuel ih =>
    intro l hl
    unfold rchunksExact
    by_cases h0 : k = 0 ∨ l = []
    · rw [if_pos h0]
      rcases h0 with h | h
      · subst h; rw [chunksOf]; simp
      · subst h; simp [chunksOf_nil']
    · rw [if_neg h0]
      have hk : k ≠ 0 := fun h => h0 (Or.inl h)
      have hl0 : l ≠ [] := fun h => h0 (Or.inr h)
      have hrl : l.reverse ≠ [] := by simpa using hl0
      rw [chunksOf_cons_step k l.reverse hk hrl]
      by_cases hle : l.length ≤ k
      · rw [if_pos hle]
        have h1 : l.reverse.take k = l.reverse := List.take_of_length_le (by simpa using hle)
        have h2 : l.reverse.drop k = [] := List.drop_eq_nil_of_le (by simpa using hle)
        rw [h1, h2, chunksOf_nil']; simp
      · rw [if_neg hle]
        have hlen : (l.take (l.length - k)).length ≤ fuel := by
          simp only [List.length_take]; omega
        rw [ih _ hlen]
        have e1 : (l.reverse.take k).reverse = l.drop (l.length - k) := by
          rw [List.take_reverse, List.reverse_reverse]
        have e2 : l.reverse.drop k = (l.take (l.length - k)).reverse := by
          rw [List.drop_reverse]
        simp only [List.map_cons, e1, e2]

theorem fromBeBytesLarge_eq (W : Nat) (neg : Bool) (bytes : List Nat) :
    fromBeBytesLarge W neg bytes = fromLeBytesLarge W neg bytes.reverse := by
  unfold fromBeBytesLarge fromLeBytesLarge
  have : (rchunksExact (W / 8) bytes.length bytes).map (fun g =>
        let w := wordFromBePartial (W / 8) neg g
        if neg then notWord W w else w) =
      (chunksOf (W / 8) bytes.reverse).map (fun g =>
        let w := wordFromLePartial (W / 8) neg g
        if neg then notWord W w else w) := by
    rw [rchunksExact_eq (W / 8) bytes.length bytes (Nat.le_refl _), List.map_map]
    apply List.map_congr_left
    intro g _
    simp [Function.comp, wordFromBePartial_eq]
  simp only [this]

/-- the mirrored big-endian decoder equals the mirror-image model -/
theorem fromBeBytesM_eq (W : Nat) (bytes : List Nat) : fromBeBytesM W bytes = fromBeBytes W bytes := by
  unfold fromBeBytesM fromBeBytes fromLeBytes
  simp only [List.length_reverse]
  by_cases h : bytes.length ≤ 2 * W / 8
  · simp only [h, if_true]; exact wordFromBePartial_eq _ _ _
  · simp only [h, if_false, fromBeBytesLarge_eq]

/-- the mirrored signed big-endian decoder equals the mirror-image model -/
theorem fromSignedBeBytesM_eq (W : Nat) (bytes : List Nat) :
    fromSignedBeBytesM W bytes = fromSignedBeBytes W bytes := by
  unfold fromSignedBeBytesM fromSignedBeBytes fromSignedLeBytes
  rw [List.getLast?_reverse]
  cases bytes.head? with
  | none => rfl
  | some top =>
    simp only [List.length_reverse]
    by_cases h1 : top < 128
    · simp only [h1, if_true, fromBeBytesM_eq]; rfl
    · simp only [h1, if_false]
      by_cases h2 : bytes.length ≤ 2 * W / 8
      · simp only [h2, if_true, wordFromBePartial_eq]
      · simp only [h2, if_false, fromBeBytesLarge_eq]

end Dashu.Model.Text
