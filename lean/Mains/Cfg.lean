import Dashu.Driver.Cfg
def main (args : List String) : IO UInt32 := Dashu.Driver.runMain Dashu.Driver.Cfg.dispatch args
