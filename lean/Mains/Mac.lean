import Dashu.Driver.Mac
def main (args : List String) : IO UInt32 := Dashu.Driver.runMain Dashu.Driver.Mac.dispatch args
