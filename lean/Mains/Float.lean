import Dashu.Driver.Float
import Dashu.Driver.FloatX
/-- `DASHU_FLOAT_ASIS=1` runs the `fixed := false` mirror (validation of the mirror against the
    unchanged code); the registered check runs without it. -/
def main (args : List String) : IO UInt32 := do
  let asIs ← IO.getEnv "DASHU_FLOAT_ASIS"
  Dashu.Driver.runMain (Dashu.Driver.FloatX.dispatchX asIs.isSome) args
