import Dashu.Driver.Cross
def main (args : List String) : IO UInt32 := Dashu.Driver.runMain Dashu.Driver.Cross.dispatch args
