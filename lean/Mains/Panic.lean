import Dashu.Driver.Panic
def main (args : List String) : IO UInt32 := Dashu.Driver.runMain Dashu.Driver.Panic.dispatch args
