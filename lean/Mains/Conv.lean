import Dashu.Driver.Conv
def main (args : List String) : IO UInt32 := Dashu.Driver.runMain Dashu.Driver.Conv.dispatch args
