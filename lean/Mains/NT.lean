import Dashu.Driver.NT
def main (args : List String) : IO UInt32 := Dashu.Driver.runMain Dashu.Driver.NT.dispatch args
