import Dashu.Driver.Div
def main (args : List String) : IO UInt32 := Dashu.Driver.runMain Dashu.Driver.Div.dispatch args
