import Dashu.Driver.Trans
def main (args : List String) : IO UInt32 := Dashu.Driver.runMain Dashu.Driver.Trans.dispatch args
