import Dashu.Driver.Text
def main (args : List String) : IO UInt32 := Dashu.Driver.runMain Dashu.Driver.Text.dispatch args
