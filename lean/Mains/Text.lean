import Dashu.Driver.Text
import Dashu.Driver.TextSci
def main (args : List String) : IO UInt32 :=
  Dashu.Driver.runMain (fun W op a => (Dashu.Driver.Text.dispatch W op a).orElse fun _ => Dashu.Driver.TextSci.dispatch W op a) args
