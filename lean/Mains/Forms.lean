import Dashu.Driver.Forms
def main (args : List String) : IO UInt32 := Dashu.Driver.runMain Dashu.Driver.Forms.dispatch args
