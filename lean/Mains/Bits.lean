import Dashu.Driver.Bits
import Dashu.Driver.BitsHuge
def main (args : List String) : IO UInt32 := Dashu.Driver.runMain Dashu.Driver.BitsHuge.dispatch args
