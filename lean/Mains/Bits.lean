import Dashu.Driver.Bits
def main (args : List String) : IO UInt32 := Dashu.Driver.runMain Dashu.Driver.Bits.dispatch args
