import Dashu.Driver.Int
def main (args : List String) : IO UInt32 := Dashu.Driver.runMain Dashu.Driver.Int.dispatch args
