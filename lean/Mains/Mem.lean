import Dashu.Driver.Mem
def main (args : List String) : IO UInt32 := Dashu.Driver.runMain Dashu.Driver.Mem.dispatch args
