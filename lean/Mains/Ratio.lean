import Dashu.Driver.RatioPred
def main (args : List String) : IO UInt32 := Dashu.Driver.runMain Dashu.Driver.RatioPred.dispatchAll args
