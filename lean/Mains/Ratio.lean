import Dashu.Driver.Ratio
def main (args : List String) : IO UInt32 := Dashu.Driver.runMain Dashu.Driver.Ratio.dispatchAll args
