#!/bin/sh
# Build the framework from files on disk only (offline): harness binaries against /repo and the
# Lean theorems + model drivers of every registered property.
set -e
cd "$(dirname "$0")"
export CARGO_NET_OFFLINE=true
mkdir -p .cache evidence
python3 - <<'PY'
import json, subprocess, sys, os
t = json.load(open('setup_targets.json'))
env = dict(os.environ, RUSTFLAGS='--cfg dashu_verif', CARGO_TARGET_DIR=os.path.abspath('.cache/harness-target'))
cmd = ['cargo', 'build', '--offline'] + sum([['--bin', 'exec_' + g] for g in t['groups']], [])
print('+', ' '.join(cmd), flush=True)
subprocess.check_call(cmd, cwd='harness', env=env)
cmd = ['lake', 'build'] + t['lean_targets']
print('+', ' '.join(cmd), flush=True)
subprocess.check_call(cmd, cwd='lean')
PY
# C19: the harness worker `exec_cfg` in every build configuration ({64,32}-bit words x {std,no_std} x {dev,release}, cached under
# .cache/cfg-<conf>; plus the dependencies of the unsupported 16-bit configuration), so that `./check C19` only re-links
python3 - <<'PY'
import sys
sys.path.insert(0, '.')
from vlib import cfgbuild
mpath, info = cfgbuild.build(list(cfgbuild.ALL) + [cfgbuild.UNSUPPORTED], jobs=4)
for conf, d in info['configurations'].items():
    print('cfg build', conf, 'ok' if d['built'] else 'FAILED ' + d['detail'][:120], '%.0fs' % d['seconds'], flush=True)
bad = [c for c, d in info['configurations'].items() if not d['built'] and c != cfgbuild.UNSUPPORTED]
# a configuration that does not build is reported by ./check C19 itself (with the build error as detail); it must not fail the setup
print('cfg configurations not built:', bad)
sys.exit(0)
PY
echo setup done
