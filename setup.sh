#!/bin/sh
# Build the framework from files on disk only (offline): harness binaries against /repo and the
# Lean theorems + model drivers of every registered property.
set -e
cd "$(dirname "$0")"
export CARGO_NET_OFFLINE=true
mkdir -p .cache evidence
python3 - <<'PY'
import json, subprocess, sys, os
t = json.load(open('setup_targets.json'))
env = dict(os.environ, RUSTFLAGS='--cfg dashu_verif', CARGO_TARGET_DIR=os.path.abspath('.cache/harness-target'))
cmd = ['cargo', 'build', '--offline'] + sum([['--bin', 'exec_' + g] for g in t['groups']], [])
print('+', ' '.join(cmd), flush=True)
subprocess.check_call(cmd, cwd='harness', env=env)
cmd = ['lake', 'build'] + t['lean_targets']
print('+', ' '.join(cmd), flush=True)
subprocess.check_call(cmd, cwd='lean')
PY
echo setup done
